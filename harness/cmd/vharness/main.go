// vharness is driver, worker and replayer of the runtime-monitoring checks (see /verif/DESIGN.md section 1).
//
//	vharness run    -prop C01 -tier quick            driver: schedules cases over child worker processes, aggregates verdicts
//	vharness worker -prop C01 -tier quick -from a -to b -journal f   executes cases against the real library
//	vharness replay <file>                           re-executes one recorded case in a fresh worker
package main

import (
	"fmt"
	"os"
)

func main() {
	if len(os.Args) < 2 {
		fmt.Fprintln(os.Stderr, "usage: vharness run|worker|replay ...")
		os.Exit(2)
	}
	switch os.Args[1] {
	case "run":
		os.Exit(driverMain(os.Args[2:]))
	case "worker":
		os.Exit(workerMain(os.Args[2:]))
	case "replay":
		os.Exit(replayMain(os.Args[2:]))
	case "list":
		listMain()
	case "show":
		showMain(os.Args[2:])
	case "diag":
		diagMain(os.Args[2:])
	case "layout":
		layoutMain(os.Args[2:])
	case "corridors":
		corridorsMain(os.Args[2:])
	default:
		fmt.Fprintln(os.Stderr, "unknown subcommand", os.Args[1])
		os.Exit(2)
	}
}
