package main

import (
	"encoding/json"
	"flag"
	"fmt"
	"os"
	"runtime"
	"runtime/debug"
	"sync/atomic"
	"time"

	"verifharness/core"
	"verifharness/oracle"
)

// journal lines (one per line, written unbuffered with a single write call each):
//
//	B <idx>            case started
//	E <idx> <json>     case finished with the given oracle.Result
//	T <idx>            watchdog: time budget exceeded, stacks written to <journal>.stacks
//	O <idx>            watchdog: heap budget exceeded
//	X <idx> <msg>      the harness itself failed on this case (never a verdict about autog)
type journal struct{ f *os.File }

func (j *journal) line(format string, a ...any) {
	fmt.Fprintf(j.f, format+"\n", a...)
}

func workerMain(args []string) int {
	fs := flag.NewFlagSet("worker", flag.ExitOnError)
	prop := fs.String("prop", "", "property id")
	tier := fs.String("tier", "quick", "tier")
	seed := fs.Int64("seed", 1, "VERIF_SEED")
	from := fs.Int("from", 0, "first case index")
	to := fs.Int("to", 0, "one past the last case index")
	jpath := fs.String("journal", "", "journal file")
	budget := fs.Int("budget", 20, "per-case time budget in seconds")
	heapMB := fs.Int("heap", 768, "heap budget in MiB")
	caseFile := fs.String("case", "", "execute the case stored in this replay file instead of generated ones")
	samples := fs.Int("samples", 4, "indices below this value carry a sample")
	fs.Parse(args)

	p := oracle.Get(*prop)
	var fixed *core.Case
	if *caseFile != "" {
		b, err := os.ReadFile(*caseFile)
		if err != nil {
			fmt.Fprintln(os.Stderr, err)
			return 2
		}
		var rf replayFile
		if err := json.Unmarshal(b, &rf); err != nil {
			fmt.Fprintln(os.Stderr, err)
			return 2
		}
		fixed = &rf.Case
		p = oracle.Get(fixed.Prop)
		*from, *to = fixed.Index, fixed.Index+1
	}
	if p == nil {
		fmt.Fprintln(os.Stderr, "unknown property", *prop)
		return 2
	}
	f, err := os.OpenFile(*jpath, os.O_CREATE|os.O_WRONLY|os.O_APPEND, 0o644)
	if err != nil {
		fmt.Fprintln(os.Stderr, err)
		return 2
	}
	j := &journal{f}

	// unbounded recursion must end quickly and deterministically in "fatal error: stack overflow"
	debug.SetMaxStack(64 << 20)

	var cur atomic.Int64     // index of the running case, -1 when idle
	var started atomic.Int64 // unix nanos of its start
	cur.Store(-1)
	go func() {
		var ms runtime.MemStats
		for {
			time.Sleep(250 * time.Millisecond)
			idx := cur.Load()
			if idx < 0 {
				continue
			}
			if time.Since(time.Unix(0, started.Load())) > time.Duration(*budget)*time.Second {
				if cur.Load() != idx {
					continue
				}
				buf := make([]byte, 1<<20)
				n := runtime.Stack(buf, true)
				os.WriteFile(*jpath+".stacks", buf[:n], 0o644)
				j.line("T %d", idx)
				os.Exit(3)
			}
			runtime.ReadMemStats(&ms)
			if ms.HeapAlloc > uint64(*heapMB)<<20 {
				if cur.Load() != idx {
					continue
				}
				buf := make([]byte, 1<<20)
				n := runtime.Stack(buf, true)
				os.WriteFile(*jpath+".stacks", buf[:n], 0o644)
				j.line("O %d", idx)
				os.Exit(4)
			}
		}
	}()

	for idx := *from; idx < *to; idx++ {
		var c *core.Case
		if fixed != nil {
			c = fixed
		} else {
			c = p.Gen(*seed, *tier, idx)
		}
		j.line("B %d", idx)
		started.Store(time.Now().UnixNano())
		cur.Store(int64(idx))
		before := core.Evaluations.Load()
		rchecks := core.RetainedChecks
		res, herr := runCase(p, c, idx < *samples || fixed != nil)
		cur.Store(-1)
		if a := core.TakeAliasViolation(); a != "" && herr == "" && res.Verdict != oracle.Violated {
			// cross-cutting monitor (core.Run): a result handed out by an earlier call of this process changed during a later call
			res = oracle.Result{Verdict: oracle.Violated, Sig: p.ID + "/returned-layout-changed-by-later-call", Detail: a, Stats: res.Stats}
		}
		if n := core.RetainedChecks - rchecks; n > 0 && herr == "" {
			if res.Stats == nil {
				res.Stats = map[string]int{}
			}
			res.Stats["retained_results_rechecked"] += n
		}
		if herr != "" {
			j.line("X %d %s", idx, herr)
			continue
		}
		res.Evals = core.Evaluations.Load() - before
		res.ProcFrom = *from
		res.Hash = oracle.HashCase(c)
		if res.Family == "" {
			res.Family = c.Family
		}
		if res.Cell == "" && len(c.Edges) > 0 {
			res.Cell = c.Opts.Cell()
		}
		b, _ := json.Marshal(res)
		j.line("E %d %s", idx, b)
	}
	return 0
}

// runCase applies the oracle; a panic that escapes the oracle is a harness failure, not a verdict.
func runCase(p *oracle.Property, c *core.Case, sample bool) (res oracle.Result, herr string) {
	defer func() {
		if v := recover(); v != nil {
			herr = fmt.Sprintf("oracle panicked: %v | %s", v, compactStack(string(debug.Stack())))
		}
	}()
	res = p.Check(c, sample)
	return
}

func compactStack(s string) string {
	out := make([]byte, 0, len(s))
	for i := 0; i < len(s) && len(out) < 1500; i++ {
		ch := s[i]
		if ch == '\n' || ch == '\t' {
			ch = ' '
		}
		out = append(out, ch)
	}
	return string(out)
}
