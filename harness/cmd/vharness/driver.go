package main

import (
	"bufio"
	"crypto/sha256"
	"encoding/hex"
	"encoding/json"
	"flag"
	"fmt"
	"os"
	"os/exec"
	"path/filepath"
	"regexp"
	"runtime"
	"runtime/debug"
	"sort"
	"strconv"
	"strings"
	"sync"
	"time"

	"github.com/nulab/autog"

	"verifharness/core"
	"verifharness/oracle"
)

type replayFile struct {
	// HistoryFrom: the violating case was executed in a worker process that had executed the generated cases
	// [HistoryFrom, case.index) before; replay uses this history when the case alone does not reproduce the violation
	// (state leaking between calls)
	HistoryFrom int           `json:"history_from"`
	Property    string        `json:"property"`
	Signature   string        `json:"signature"`
	Detail      string        `json:"detail"`
	Case        core.Case     `json:"case"`
	Result      oracle.Result `json:"result"`
}

type caseOutcome struct {
	idx    int
	res    oracle.Result
	status string // "ok", "crash", "timeout", "oom", "harness"
	info   string // crash classification / harness message
}

type driver struct {
	p         *oracle.Property
	tier      string
	seed      int64
	exe       string
	workerExe string
	runDir    string
	verifDir  string
	budget    int
	mu        sync.Mutex
	outcomes  []caseOutcome
	spawnN    int

	crossCompared int
	secondRuntime string
}

func listMain() {
	for _, id := range oracle.IDs() {
		p := oracle.Get(id)
		fmt.Printf("%s quick=%d thorough=%d %s\n", id, p.Count("quick"), p.Count("thorough"), p.Title)
	}
}

// showMain prints generated cases (debugging aid): vharness show C01 quick 17 [seed]
func showMain(args []string) {
	seed := int64(1)
	if len(args) > 3 {
		seed, _ = strconv.ParseInt(args[3], 10, 64)
	}
	idx, _ := strconv.Atoi(args[2])
	c := oracle.Get(args[0]).Gen(seed, args[1], idx)
	rf := replayFile{Property: args[0], Case: *c}
	b, _ := json.Marshal(rf)
	fmt.Println(string(b))
}

// diagMain prints the phase diagnosis (hook H3) of a recorded case: vharness diag <file>
func diagMain(args []string) {
	b, err := os.ReadFile(args[0])
	if err != nil {
		fmt.Println(err)
		return
	}
	var rf replayFile
	json.Unmarshal(b, &rf)
	debug.SetMaxStack(64 << 20)
	core.DiagStream = func(s string) { fmt.Println("note:", s) }
	fmt.Println(core.Diagnose(rf.Case.Edges, rf.Case.Opts))
}

// corridorsMain prints the spline corridors phase 5 builds for a recorded case (debugging aid).
func corridorsMain(args []string) {
	b, err := os.ReadFile(args[0])
	if err != nil {
		fmt.Println(err)
		return
	}
	var rf replayFile
	json.Unmarshal(b, &rf)
	go func() { time.Sleep(3 * time.Second); fmt.Println("... still running after 3s, exiting"); os.Exit(0) }()
	rec := &core.Recorder{OnLog: func(e core.Event) {
		if e.Phase == 5 {
			fmt.Printf("%s: %v\n", e.Key, e.Val)
		}
	}}
	res := core.Run(rf.Case.Edges, rf.Case.Opts, autog.WithMonitor(rec))
	if res.Panic != nil {
		fmt.Println("PANIC", res.Panic.Msg, res.Panic.Func)
	}
}

// layoutMain prints the layout autog returns for a recorded case (debugging aid).
func layoutMain(args []string) {
	b, err := os.ReadFile(args[0])
	if err != nil {
		fmt.Println(err)
		return
	}
	var rf replayFile
	json.Unmarshal(b, &rf)
	res := core.Run(rf.Case.Edges, rf.Case.Opts)
	if res.Panic != nil {
		fmt.Println("PANIC", res.Panic.Msg, res.Panic.Func)
		return
	}
	for _, n := range res.Layout.Nodes {
		fmt.Printf("node %-6s x=%-10v y=%-10v w=%-8v h=%v\n", n.ID, n.X, n.Y, n.W, n.H)
	}
	for _, e := range res.Layout.Edges {
		fmt.Printf("edge %s -> %s arrowstart=%v %v\n", e.FromID, e.ToID, e.ArrowHeadStart, e.Points)
	}
	fmt.Println("ns:", res.NS)
}

func driverMain(args []string) int {
	fs := flag.NewFlagSet("run", flag.ExitOnError)
	prop := fs.String("prop", "", "property id")
	tier := fs.String("tier", "quick", "quick|thorough")
	workers := fs.Int("workers", 0, "parallel workers (default: cores)")
	verifDir := fs.String("verif", "/verif", "verif directory")
	workerExe := fs.String("worker-exe", "", "binary used for workers (default: this binary)")
	workerExe2 := fs.String("worker-exe2", "", "binary used for the cross-process stage (e.g. the worker built with a second Go release)")
	limit := fs.Int("limit", 0, "override the number of cases (debugging only)")
	fs.Parse(args)

	if t := os.Getenv("VERIF_TIER"); t != "" && *tier == "" {
		*tier = t
	}
	seed := int64(1)
	if s := os.Getenv("VERIF_SEED"); s != "" {
		if v, err := strconv.ParseInt(s, 10, 64); err == nil {
			seed = v
		}
	}
	p := oracle.Get(*prop)
	if p == nil {
		fmt.Printf("INCONCLUSIVE property=%s reason=unknown-property\n", *prop)
		return 2
	}
	exe, _ := os.Executable()
	if *workerExe == "" {
		*workerExe = exe
	}
	if *workers <= 0 {
		*workers = runtime.NumCPU()
	}
	d := &driver{p: p, tier: *tier, seed: seed, exe: exe, workerExe: *workerExe, verifDir: *verifDir, budget: p.Budget}
	if d.budget == 0 {
		d.budget = 60 // a single layout of ~130 multi-edges takes 6 s alone and over 20 s on a loaded machine
	}
	d.runDir = filepath.Join(*verifDir, ".run", fmt.Sprintf("%s.%d", p.ID, os.Getpid()))
	os.MkdirAll(d.runDir, 0o755)
	if os.Getenv("VERIF_KEEP") == "" {
		defer os.RemoveAll(d.runDir)
	}

	start := time.Now()
	total := p.Count(*tier)
	if *limit > 0 {
		total = *limit
	}
	chunk := p.Chunk
	if chunk == 0 {
		chunk = total / (*workers * 6)
		if chunk < 1 {
			chunk = 1
		}
		if chunk > 2000 {
			chunk = 2000
		}
	}
	type span struct{ from, to int }
	queue := make(chan span, total/chunk+2)
	for a := 0; a < total; a += chunk {
		b := a + chunk
		if b > total {
			b = total
		}
		queue <- span{a, b}
	}
	close(queue)
	var wg sync.WaitGroup
	for w := 0; w < *workers; w++ {
		wg.Add(1)
		go func() {
			defer wg.Done()
			for s := range queue {
				if d.tooManyDeaths() {
					continue // fail fast: drain the queue without executing (reported as partial coverage)
				}
				d.runSpan(s.from, s.to, d.budget, 0)
			}
		}()
	}
	wg.Wait()

	// cross-process stage (C07): a fraction of the cases is executed again in other fresh processes; digests must agree
	if p.CrossProcess > 0 && !d.tooManyDeaths() {
		n2 := int(float64(total) * p.CrossProcess)
		exe2 := *workerExe
		if *workerExe2 != "" {
			exe2 = *workerExe2
			d.secondRuntime = filepath.Base(*workerExe2)
		}
		d2 := &driver{p: p, tier: *tier, seed: seed, exe: exe, workerExe: exe2, verifDir: *verifDir, runDir: d.runDir, budget: d.budget}
		d2.spawnN = 500000
		q2 := make(chan span, n2/(chunk/2+1)+2)
		// different chunk boundaries than in the first pass, so that a case meets different predecessors in its process
		c2 := chunk/2 + 1
		for a := 0; a < n2; a += c2 {
			q2 <- span{a, min(a+c2, n2)}
		}
		close(q2)
		var wg2 sync.WaitGroup
		for w := 0; w < *workers; w++ {
			wg2.Add(1)
			go func() {
				defer wg2.Done()
				for s := range q2 {
					d2.runSpan(s.from, s.to, d.budget, 0)
				}
			}()
		}
		wg2.Wait()
		firstPass := map[int]*caseOutcome{}
		for i := range d.outcomes {
			if d.outcomes[i].status == "ok" {
				firstPass[d.outcomes[i].idx] = &d.outcomes[i]
			}
		}
		compared := 0
		for _, o2 := range d2.outcomes {
			o1 := firstPass[o2.idx]
			if o1 == nil || o2.status != "ok" || o1.res.Verdict != oracle.Held || o2.res.Verdict != oracle.Held {
				continue
			}
			compared++
			if o1.res.Detail != o2.res.Detail {
				o1.res.Verdict = oracle.Violated
				o1.res.Sig = p.ID + "/cross-process"
				o1.res.Detail = fmt.Sprintf("the same call returned different results in two fresh processes: %s vs %s", o1.res.Detail, o2.res.Detail)
			}
		}
		d.crossCompared = compared
	}

	// confirmation stage: time never decides alone. A timeout under load is re-run with 5x the budget while at most
	// 4 such re-runs share the 16 cores. At most 3 confirmations are spent per stuck function: further timeouts in a
	// function already confirmed to hang are reported under the same signature without another (expensive) re-run.
	var slow []int
	var cmu sync.Mutex
	confirmed := map[string]int{}
	sem := make(chan struct{}, 4)
	var cwg sync.WaitGroup
	for i := range d.outcomes {
		o := &d.outcomes[i]
		if o.status != "timeout" || p.Race {
			// race-detector batches are long: a timeout there is left as "did not return" (a C01 matter); the race
			// oracle has already collected every report of the worker
			continue
		}
		cmu.Lock()
		skip := confirmed[o.info] >= 3
		cmu.Unlock()
		if skip {
			continue
		}
		cwg.Add(1)
		sem <- struct{}{}
		go func(o *caseOutcome) {
			defer cwg.Done()
			defer func() { <-sem }()
			sub := &driver{p: p, tier: *tier, seed: seed, exe: exe, workerExe: *workerExe, verifDir: *verifDir, runDir: d.runDir}
			sub.spawnN = 100000 + o.idx
			sub.runSpan(o.idx, o.idx+1, 5*d.budget, 0)
			cmu.Lock()
			defer cmu.Unlock()
			var fin *caseOutcome
			for k := range sub.outcomes {
				so := &sub.outcomes[k]
				if so.idx == o.idx && (fin == nil || so.status != "timeout") {
					fin = so
				}
			}
			switch {
			case fin == nil:
			case fin.status == "ok":
				slow = append(slow, o.idx)
				*o = *fin
				o.res.Notes = append(o.res.Notes, fmt.Sprintf("case %d exceeded %ds under load but finished when re-run with %ds (slow, not charged)", o.idx, d.budget, 5*d.budget))
			default:
				// still no return: hang, runaway heap or crash, now observed without competing load
				*o = *fin
				confirmed[o.info]++
			}
		}(o)
	}
	cwg.Wait()
	sort.Ints(slow)
	return d.finish(total, slow, time.Since(start))
}

// runSpan executes cases [from,to) in child workers, restarting after every worker death.
func (d *driver) runSpan(from, to, budget int, depth int) {
	for from < to {
		d.mu.Lock()
		d.spawnN++
		n := d.spawnN
		d.mu.Unlock()
		jpath := filepath.Join(d.runDir, fmt.Sprintf("w%d.journal", n))
		epath := filepath.Join(d.runDir, fmt.Sprintf("w%d.stderr", n))
		ef, _ := os.Create(epath)
		cmd := exec.Command(d.workerExe, "worker", "-prop", d.p.ID, "-tier", d.tier, "-seed", strconv.FormatInt(d.seed, 10),
			"-from", strconv.Itoa(from), "-to", strconv.Itoa(to), "-journal", jpath, "-budget", strconv.Itoa(budget))
		cmd.Stdout = ef
		cmd.Stderr = ef
		cmd.Env = append(os.Environ(), "GOTRACEBACK=all")
		if d.p.Race {
			cmd.Env = append(cmd.Env, "GORACE=halt_on_error=0 log_path="+filepath.Join(d.runDir, fmt.Sprintf("race%d", n)))
		}
		// generous backstop: the worker's own watchdog should always fire first
		done := make(chan error, 1)
		if err := cmd.Start(); err != nil {
			ef.Close()
			d.add(caseOutcome{idx: from, status: "harness", info: "cannot start worker: " + err.Error()})
			return
		}
		go func() { done <- cmd.Wait() }()
		backstop := time.Duration(budget*(to-from)+120) * time.Second
		var werr error
		select {
		case werr = <-done:
		case <-time.After(backstop):
			cmd.Process.Kill()
			werr = <-done
		}
		ef.Close()
		last, open, outs := d.readJournal(jpath)
		stderrTxt := readTail(epath, 200000)
		raceN := 0
		if d.p.Race {
			raceN = d.collectRace(n, stderrTxt)
		}
		_ = raceN
		for _, o := range outs {
			d.add(o)
		}
		if werr == nil && !open {
			if os.Getenv("VERIF_KEEP") == "" {
				os.Remove(jpath)
				os.Remove(epath)
			}
			return
		}
		// the worker died: the open case is the culprit
		if !open {
			// died outside a case (should not happen): treat the next unprocessed index as a harness failure
			d.add(caseOutcome{idx: last + 1, status: "harness", info: "worker exited abnormally outside a case: " + firstLines(stderrTxt, 5)})
			from = last + 2
			continue
		}
		// was the death announced by the watchdog?
		announced := false
		for _, o := range outs {
			if o.idx == last && (o.status == "timeout" || o.status == "oom") {
				announced = true
			}
		}
		if !announced {
			d.add(caseOutcome{idx: last, status: "crash", info: classifyCrash(stderrTxt)})
		} else {
			// attach the stack dump to the outcome
			st := readTail(jpath+".stacks", 100000)
			d.mu.Lock()
			for i := range d.outcomes {
				if d.outcomes[i].idx == last && (d.outcomes[i].status == "timeout" || d.outcomes[i].status == "oom") {
					d.outcomes[i].info = topAutogFrame(st)
				}
			}
			d.mu.Unlock()
		}
		from = last + 1
	}
}

// tooManyDeaths reports whether so many workers died (crash, hang, runaway heap) that running on only wastes time.
func (d *driver) tooManyDeaths() bool {
	d.mu.Lock()
	defer d.mu.Unlock()
	n := 0
	for _, o := range d.outcomes {
		if o.status == "timeout" || o.status == "oom" || o.status == "crash" {
			n++
		}
	}
	return n >= 48
}

func (d *driver) add(o caseOutcome) {
	d.mu.Lock()
	d.outcomes = append(d.outcomes, o)
	d.mu.Unlock()
}

// readJournal returns the last begun index, whether it is still open, and the finished outcomes.
func (d *driver) readJournal(path string) (last int, open bool, outs []caseOutcome) {
	last = -1
	f, err := os.Open(path)
	if err != nil {
		return
	}
	defer f.Close()
	sc := bufio.NewScanner(f)
	sc.Buffer(make([]byte, 1<<20), 64<<20)
	for sc.Scan() {
		line := sc.Text()
		if len(line) < 3 {
			continue
		}
		rest := line[2:]
		idxStr, tail, _ := strings.Cut(rest, " ")
		idx, err := strconv.Atoi(idxStr)
		if err != nil {
			continue
		}
		switch line[0] {
		case 'B':
			last, open = idx, true
		case 'E':
			var r oracle.Result
			if err := json.Unmarshal([]byte(tail), &r); err != nil {
				outs = append(outs, caseOutcome{idx: idx, status: "harness", info: "bad journal record: " + err.Error()})
			} else {
				outs = append(outs, caseOutcome{idx: idx, status: "ok", res: r})
			}
			open = false
		case 'T':
			outs = append(outs, caseOutcome{idx: idx, status: "timeout"})
		case 'O':
			outs = append(outs, caseOutcome{idx: idx, status: "oom"})
		case 'X':
			outs = append(outs, caseOutcome{idx: idx, status: "harness", info: tail})
			open = false
		}
	}
	return
}

func readTail(path string, max int) string {
	b, err := os.ReadFile(path)
	if err != nil {
		return ""
	}
	if len(b) > max {
		// keep head and tail: the head names the fatal error, the tail the deepest frames
		return string(b[:max/2]) + "\n...\n" + string(b[len(b)-max/2:])
	}
	return string(b)
}

func firstLines(s string, n int) string {
	ls := strings.Split(s, "\n")
	if len(ls) > n {
		ls = ls[:n]
	}
	return strings.Join(ls, " | ")
}

var reFrame = regexp.MustCompile(`(?m)^github\.com/nulab/autog(?:/internal)?/?([^\s(]+)\(`)

// topAutogFrame names the first autog function in a stack dump.
func topAutogFrame(s string) string {
	if m := reFrame.FindStringSubmatch(s); m != nil {
		return strings.ReplaceAll(m[1], "[...]", "")
	}
	return "?"
}

// classifyCrash turns the stderr of a dead worker into a stable description.
func classifyCrash(stderr string) string {
	kind := "died"
	switch {
	case strings.Contains(stderr, "stack overflow") || strings.Contains(stderr, "goroutine stack exceeds"):
		kind = "stack-overflow"
	case strings.Contains(stderr, "out of memory") || strings.Contains(stderr, "cannot allocate memory"):
		kind = "out-of-memory"
	case strings.Contains(stderr, "checkptr"):
		kind = "checkptr"
	case strings.Contains(stderr, "fatal error:"):
		i := strings.Index(stderr, "fatal error:")
		kind = "fatal:" + strings.ReplaceAll(strings.TrimSpace(strings.SplitN(stderr[i+12:], "\n", 2)[0]), " ", "-")
	case strings.Contains(stderr, "panic:"):
		kind = "unrecovered-panic"
	}
	return kind + "/" + topAutogFrame(stderr)
}

var reRaceFrames = regexp.MustCompile(`(?m)^  (github\.com/nulab/autog[^\s(]*)\(`)

// collectRace gathers the race detector reports of worker n (log files and stderr).
func (d *driver) collectRace(n int, stderr string) int {
	files, _ := filepath.Glob(filepath.Join(d.runDir, fmt.Sprintf("race%d.*", n)))
	txt := stderr
	for _, f := range files {
		b, _ := os.ReadFile(f)
		txt += "\n" + string(b)
		os.Remove(f)
	}
	blocks := strings.Split(txt, "WARNING: DATA RACE")
	if len(blocks) <= 1 {
		return 0
	}
	d.mu.Lock()
	defer d.mu.Unlock()
	for _, b := range blocks[1:] {
		if i := strings.Index(b, "=================="); i >= 0 {
			b = b[:i]
		}
		// signature: the innermost autog frames of the two accesses
		var fr []string
		for _, part := range strings.SplitN(b, "Previous ", 2) {
			if m := reRaceFrames.FindStringSubmatch(part); m != nil {
				fr = append(fr, strings.TrimPrefix(strings.TrimPrefix(m[1], "github.com/nulab/autog/internal/"), "github.com/nulab/autog"))
			} else {
				fr = append(fr, "?")
			}
		}
		sort.Strings(fr)
		sig := d.p.ID + "/race/" + strings.Join(fr, "+")
		d.outcomes = append(d.outcomes, caseOutcome{idx: -1, status: "race", res: oracle.Result{Verdict: oracle.Violated, Sig: sig, Detail: "WARNING: DATA RACE" + truncate(b, 6000)}})
	}
	return len(blocks) - 1
}

func truncate(s string, n int) string {
	if len(s) > n {
		return s[:n] + "…"
	}
	return s
}

type knownFinding struct {
	prop, sig, text string
}

func loadKnown(verifDir string) []knownFinding {
	b, err := os.ReadFile(filepath.Join(verifDir, "KNOWN_FINDINGS.txt"))
	if err != nil {
		return nil
	}
	var out []knownFinding
	for _, line := range strings.Split(string(b), "\n") {
		line = strings.TrimSpace(line)
		if !strings.HasPrefix(line, "finding:") {
			continue
		}
		var k knownFinding
		rest := strings.TrimSpace(strings.TrimPrefix(line, "finding:"))
		for _, f := range strings.Fields(rest) {
			if strings.HasPrefix(f, "property=") && k.prop == "" {
				k.prop = strings.TrimPrefix(f, "property=")
			} else if strings.HasPrefix(f, "sig=") && k.sig == "" {
				k.sig = strings.TrimPrefix(f, "sig=")
			}
		}
		k.text = rest
		if k.prop != "" && k.sig != "" {
			out = append(out, k)
		}
	}
	return out
}

func sanitizeSig(s string) string {
	s = strings.Join(strings.Fields(s), "_")
	return s
}

func (d *driver) finish(total int, slow []int, wall time.Duration) int {
	p := d.p
	known := loadKnown(d.verifDir)
	isKnown := func(sig string) *knownFinding {
		for i := range known {
			if known[i].prop == p.ID && known[i].sig == sig {
				return &known[i]
			}
		}
		return nil
	}
	sort.Slice(d.outcomes, func(i, j int) bool { return d.outcomes[i].idx < d.outcomes[j].idx })

	type viol struct {
		sig    string
		first  caseOutcome
		count  int
		detail string
	}
	viols := map[string]*viol{}
	addViol := func(sig string, o caseOutcome, detail string) {
		sig = sanitizeSig(sig)
		v := viols[sig]
		if v == nil {
			v = &viol{sig: sig, first: o, detail: detail}
			viols[sig] = v
		}
		v.count++
	}
	var (
		evals       int64
		executed    int
		heldN       int
		skippedBy   = map[string]int{}
		stats       = map[string]int{}
		families    = map[string]int{}
		cells       = map[string]int{}
		ntHashes    = map[string]bool{}
		allHashes   = map[string]bool{}
		samples     []any
		notes       []string
		harnessErrs []string
		raceBlocks  int
	)
	for _, o := range d.outcomes {
		switch o.status {
		case "race":
			raceBlocks++
			addViol(o.res.Sig, o, o.res.Detail)
			continue
		case "harness":
			harnessErrs = append(harnessErrs, fmt.Sprintf("case %d: %s", o.idx, o.info))
			continue
		case "crash", "timeout", "oom":
			executed++
			if p.DeathIsViolation || (p.Race && strings.Contains(o.info, "concurrent")) {
				kind := map[string]string{"crash": "fatal", "timeout": "hang", "oom": "oom"}[o.status]
				addViol(p.ID+"/"+kind+"/"+o.info, o, fmt.Sprintf("worker %s on this case: %s", o.status, o.info))
			} else {
				skippedBy["noreturn"]++
			}
			continue
		}
		executed++
		r := o.res
		evals += r.Evals
		families[r.Family]++
		if r.Cell != "" {
			cells[r.Cell]++
		}
		for k, v := range r.Stats {
			stats[k] += v
		}
		for _, n := range r.Notes {
			if len(notes) < 20 {
				notes = append(notes, n)
			}
		}
		allHashes[r.Hash] = true
		switch r.Verdict {
		case oracle.Held:
			heldN++
			if r.Nontrivial {
				ntHashes[r.Hash] = true
			}
			if r.Sample != nil && len(samples) < 5 {
				samples = append(samples, r.Sample)
			}
		case oracle.Skipped:
			skippedBy[r.Sig]++
		case oracle.Violated:
			if r.Nontrivial {
				ntHashes[r.Hash] = true
			}
			addViol(r.Sig, o, r.Detail)
		}
	}

	// report
	exit := 0
	var sigs []string
	for s := range viols {
		sigs = append(sigs, s)
	}
	sort.Strings(sigs)
	unlisted := 0
	var knownHit []string
	repDir := filepath.Join(d.verifDir, "replays", p.ID)
	printed := 0
	for _, s := range sigs {
		v := viols[s]
		if k := isKnown(s); k != nil {
			fmt.Printf("KNOWN-FINDING: %s (seen %d times in this run)\n", k.text, v.count)
			knownHit = append(knownHit, s)
			continue
		}
		unlisted++
		exit = 1
		if printed >= 20 {
			continue
		}
		printed++
		os.MkdirAll(repDir, 0o755)
		h := sha256.Sum256([]byte(s))
		path := filepath.Join(repDir, hex.EncodeToString(h[:6])+".json")
		rf := replayFile{Property: p.ID, Signature: s, Detail: v.detail, Result: v.first.res, HistoryFrom: v.first.res.ProcFrom}
		if v.first.idx >= 0 {
			rf.Case = *p.Gen(d.seed, d.tier, v.first.idx)
		} else {
			rf.Case = core.Case{Prop: p.ID, Tier: d.tier, Seed: d.seed, Index: -1, Note: "race report: not tied to a single case; re-run the check to reproduce"}
		}
		b, _ := json.MarshalIndent(rf, "", " ")
		os.WriteFile(path, b, 0o644)
		fmt.Printf("VIOLATION property=%s replay=%s\n", p.ID, path)
		fmt.Printf("  signature: %s (%d cases)\n  %s\n", s, v.count, firstLines(v.detail, 6))
	}
	if unlisted > printed {
		fmt.Printf("  ... and %d more distinct violation signatures\n", unlisted-printed)
	}
	for _, n := range notes {
		fmt.Println("NOTE:", n)
	}
	if !p.DeathIsViolation && skippedBy["noreturn"] > 0 {
		fmt.Printf("NOTE: %d cases skipped because Layout did not return (see C01)\n", skippedBy["noreturn"])
	}
	if len(slow) > 0 {
		fmt.Printf("NOTE: %d slow cases (finished only when re-run alone): %v\n", len(slow), slow)
	}

	// conclusiveness
	var inconclusive []string
	if len(harnessErrs) > 0 {
		inconclusive = append(inconclusive, fmt.Sprintf("harness-errors=%d first=%q", len(harnessErrs), truncate(harnessErrs[0], 600)))
	}
	if executed < total {
		inconclusive = append(inconclusive, fmt.Sprintf("executed=%d/%d", executed, total))
	}
	skippedTotal := 0
	for _, n := range skippedBy {
		skippedTotal += n
	}
	if executed > 0 && skippedTotal*2 > executed {
		inconclusive = append(inconclusive, fmt.Sprintf("skipped=%d/%d %v", skippedTotal, executed, skippedBy))
	}
	if p.MinNontrivial != nil && len(ntHashes) < p.MinNontrivial(d.tier) && total == p.Count(d.tier) {
		inconclusive = append(inconclusive, fmt.Sprintf("distinct_nontrivial=%d<%d", len(ntHashes), p.MinNontrivial(d.tier)))
	}
	if total == p.Count(d.tier) {
		for _, k := range p.Required {
			if stats[k] == 0 {
				inconclusive = append(inconclusive, "never-observed="+k)
			}
		}
	}

	if len(samples) == 0 {
		samples = append(samples, map[string]any{"note": "no held case carried a sample in this run"})
	}
	ev := map[string]any{
		"property_id": p.ID,
		"tier":        d.tier,
		"seed":        d.seed,
		"level":       "exploration",
		"coverage": map[string]any{
			"evaluations":                 evals,
			"cases":                       executed,
			"cases_held":                  heldN,
			"distinct_cases":              len(allHashes),
			"distinct_nontrivial":         len(ntHashes),
			"rule":                        p.Rule,
			"samples":                     samples,
			"families":                    families,
			"cells_hit":                   len(cells),
			"cells":                       cells,
			"skipped_by_reason":           skippedBy,
			"observed":                    stats,
			"slow_cases":                  slow,
			"known_findings_seen":         knownHit,
			"race_reports":                raceBlocks,
			"violation_sigs":              sigs,
			"inconclusive":                inconclusive,
			"workers_spawned":             d.spawnN,
			"cross_process_pairs":         d.crossCompared,
			"cross_process_second_binary": d.secondRuntime,
		},
		"assumptions": append([]string{
			"the worker is rebuilt from /repo's working tree with build tag verif; cases are a deterministic function of (VERIF_SEED, property, tier, index)",
			"a passing run means: held on the executions counted here, nothing more",
		}, p.Assumptions...),
		"wall_s":     wall.Seconds(),
		"violations": unlisted,
	}
	if evals == 0 {
		ev["coverage"].(map[string]any)["evaluations"] = executed
	}
	b, _ := json.MarshalIndent(ev, "", " ")
	os.MkdirAll(filepath.Join(d.verifDir, "evidence"), 0o755)
	os.WriteFile(filepath.Join(d.verifDir, "evidence", p.ID+".json"), b, 0o644)

	fmt.Printf("%s %s seed=%d: cases=%d held=%d skipped=%d violations(distinct, unlisted)=%d known=%d distinct_nontrivial=%d evaluations=%d wall=%.1fs\n",
		p.ID, d.tier, d.seed, executed, heldN, skippedTotal, unlisted, len(knownHit), len(ntHashes), evals, wall.Seconds())
	if exit == 0 && len(inconclusive) > 0 {
		fmt.Printf("INCONCLUSIVE property=%s reason=%s\n", p.ID, strings.Join(inconclusive, ";"))
		return 2
	}
	return exit
}

func replayMain(args []string) int {
	if len(args) < 1 {
		fmt.Fprintln(os.Stderr, "usage: vharness replay <file> [-worker-exe path]")
		return 2
	}
	path := args[0]
	workerExe, _ := os.Executable()
	if len(args) >= 3 && args[1] == "-worker-exe" {
		workerExe = args[2]
	}
	b, err := os.ReadFile(path)
	if err != nil {
		fmt.Fprintln(os.Stderr, err)
		return 2
	}
	var rf replayFile
	if err := json.Unmarshal(b, &rf); err != nil {
		fmt.Fprintln(os.Stderr, err)
		return 2
	}
	p := oracle.Get(rf.Property)
	if p == nil {
		fmt.Fprintln(os.Stderr, "unknown property", rf.Property)
		return 2
	}
	if rf.Case.Index < 0 {
		fmt.Println("this replay file records a race report; re-run the check itself")
		return 2
	}
	dir, _ := os.MkdirTemp(filepath.Dir(path), ".replay")
	defer os.RemoveAll(dir)
	jpath := filepath.Join(dir, "journal")
	budget := p.Budget
	if budget == 0 {
		budget = 60
	}
	cmd := exec.Command(workerExe, "worker", "-case", path, "-journal", jpath, "-budget", strconv.Itoa(5*budget))
	out, _ := cmd.CombinedOutput()
	d := &driver{p: p}
	last, open, outs := d.readJournal(jpath)
	_ = last
	status, sig, detail := "held", "", ""
	for _, o := range outs {
		switch o.status {
		case "ok":
			status, sig, detail = o.res.Verdict, o.res.Sig, o.res.Detail
		case "timeout":
			status, sig = "violated", "DEATH/hang/"+topAutogFrame(readTail(jpath+".stacks", 100000))
		case "oom":
			status, sig = "violated", "DEATH/oom/"+topAutogFrame(readTail(jpath+".stacks", 100000))
		case "harness":
			fmt.Println("harness error:", o.info)
			return 2
		}
	}
	if open && status == "held" {
		status, sig = "violated", "DEATH/fatal/"+classifyCrash(string(out))
	}
	if status != oracle.Violated && rf.HistoryFrom < rf.Case.Index && rf.Case.Index-rf.HistoryFrom <= 20000 {
		// the case alone holds: repeat it after the same history of calls in one process
		jpath2 := filepath.Join(dir, "journal2")
		cmd := exec.Command(workerExe, "worker", "-prop", rf.Property, "-tier", rf.Case.Tier, "-seed", strconv.FormatInt(rf.Case.Seed, 10),
			"-from", strconv.Itoa(rf.HistoryFrom), "-to", strconv.Itoa(rf.Case.Index+1), "-journal", jpath2, "-budget", strconv.Itoa(5*budget))
		cmd.CombinedOutput()
		_, _, outs2 := d.readJournal(jpath2)
		for _, o := range outs2 {
			if o.idx == rf.Case.Index && o.status == "ok" && o.res.Verdict == oracle.Violated {
				status, sig, detail = o.res.Verdict, o.res.Sig, o.res.Detail
				fmt.Printf("the case alone holds; the violation needs the history of generated cases [%d,%d) executed before it in the same process\n", rf.HistoryFrom, rf.Case.Index)
			}
		}
	}
	if status == oracle.Violated && strings.HasPrefix(sig, "DEATH/") {
		if !p.DeathIsViolation {
			fmt.Printf("case did not return (%s): a C01 matter, skipped for %s\n", sig, rf.Property)
			return 0
		}
		sig = rf.Property + strings.TrimPrefix(sig, "DEATH")
	}
	fmt.Printf("replay %s: %s %s\n%s\n", path, status, sig, detail)
	if status == oracle.Violated {
		fmt.Printf("VIOLATION property=%s replay=%s\n", rf.Property, path)
		return 1
	}
	return 0
}
