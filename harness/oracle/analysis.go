package oracle

import (
	"fmt"
	"math"
	"sort"

	"github.com/nulab/autog/graph"

	"verifharness/core"
)

// view is a returned layout seen through the input it was computed from.
type view struct {
	edges   [][]string
	o       core.Opts
	l       graph.Layout
	ids     []string // input ids, first-appearance order
	isInput map[string]bool
	comp    map[string]int // component number of every input id (by first appearance)
	ncomp   int
	node    map[string]int // index into l.Nodes of an input id (first occurrence), -1 if missing
	num     numeric
}

func newView(edges [][]string, o core.Opts, l graph.Layout, exact bool) *view {
	v := &view{edges: edges, o: o, l: l}
	v.ids = nodeIDs(edges)
	v.isInput = map[string]bool{}
	idx := map[string]int{}
	for i, id := range v.ids {
		v.isInput[id] = true
		idx[id] = i
	}
	// union-find over input ids
	p := make([]int, len(v.ids))
	for i := range p {
		p[i] = i
	}
	var find func(int) int
	find = func(x int) int {
		for p[x] != x {
			p[x] = p[p[x]]
			x = p[x]
		}
		return x
	}
	for _, e := range edges {
		if len(e) == 2 {
			p[find(idx[e[0]])] = find(idx[e[1]])
		}
	}
	v.comp = map[string]int{}
	root2c := map[int]int{}
	for i, id := range v.ids {
		r := find(i)
		c, ok := root2c[r]
		if !ok {
			c = len(root2c)
			root2c[r] = c
		}
		v.comp[id] = c
	}
	v.ncomp = len(root2c)
	v.node = map[string]int{}
	for _, id := range v.ids {
		v.node[id] = -1
	}
	scale := 1.0
	for i, n := range l.Nodes {
		if j, ok := v.node[n.ID]; ok && j == -1 {
			v.node[n.ID] = i
		}
		scale = math.Max(scale, math.Max(math.Abs(n.X)+math.Abs(n.W), math.Abs(n.Y)+math.Abs(n.H)))
	}
	v.num = numeric{exact: exact, scale: scale}
	return v
}

// allPresent reports whether every input node is in the output (otherwise geometric oracles cannot be applied; C02 matter).
func (v *view) allPresent() bool {
	for _, id := range v.ids {
		if v.node[id] < 0 {
			return false
		}
	}
	return true
}

func (v *view) n(id string) graph.Node { return v.l.Nodes[v.node[id]] }

func finite(fs ...float64) bool {
	for _, f := range fs {
		if math.IsNaN(f) || math.IsInf(f, 0) {
			return false
		}
	}
	return true
}

// bandsOf returns, per component, the sorted distinct Y values of its real (input) nodes.
func (v *view) bandsOf() [][]float64 {
	sets := make([]map[float64]bool, v.ncomp)
	for i := range sets {
		sets[i] = map[float64]bool{}
	}
	for _, id := range v.ids {
		sets[v.comp[id]][v.n(id).Y] = true
	}
	out := make([][]float64, v.ncomp)
	for i, s := range sets {
		for y := range s {
			out[i] = append(out[i], y)
		}
		sort.Float64s(out[i])
	}
	return out
}

// bandIndex returns the band number (rank of its Y among the component's real-node Ys) of every input node.
func (v *view) bandIndex() map[string]int {
	bands := v.bandsOf()
	out := map[string]int{}
	for _, id := range v.ids {
		ys := bands[v.comp[id]]
		out[id] = sort.SearchFloat64s(ys, v.n(id).Y)
	}
	return out
}

// globalBandIndex ranks Y over all returned nodes (helper nodes included). With uniform node heights every component
// uses the same Y grid, so the rank is the layer number (see DESIGN C10).
func (v *view) globalBandIndex() (map[string]int, []float64) {
	set := map[float64]bool{}
	for _, n := range v.l.Nodes {
		set[n.Y] = true
	}
	var ys []float64
	for y := range set {
		ys = append(ys, y)
	}
	sort.Float64s(ys)
	out := map[string]int{}
	for _, id := range v.ids {
		out[id] = sort.SearchFloat64s(ys, v.n(id).Y)
	}
	return out, ys
}

// isSelfLoop reports whether the edge is a self loop.
func isSelfLoop(e []string) bool { return len(e) == 2 && e[0] == e[1] }

// structure facts about the input used by non-triviality rules
type facts struct {
	nodes, edges    int
	selfLoops       int
	selfLoopNodes   int // nodes with >= 2 self loops
	parallelPairs   int
	antiPairs       int
	components      int
	cyclic          bool
	maxComponentLen int
}

func inputFacts(edges [][]string) facts {
	var f facts
	ids := nodeIDs(edges)
	f.nodes = len(ids)
	f.edges = len(edges)
	cnt := map[[2]string]int{}
	sl := map[string]int{}
	for _, e := range edges {
		if len(e) != 2 {
			continue
		}
		if e[0] == e[1] {
			f.selfLoops++
			sl[e[0]]++
			continue
		}
		cnt[[2]string{e[0], e[1]}]++
	}
	for _, c := range sl {
		if c >= 2 {
			f.selfLoopNodes++
		}
	}
	for k, c := range cnt {
		if c >= 2 {
			f.parallelPairs++
		}
		if k[0] < k[1] && cnt[[2]string{k[1], k[0]}] > 0 {
			f.antiPairs++
		}
	}
	v := newView(edges, core.Opts{}, graph.Layout{}, true)
	f.components = v.ncomp
	f.cyclic = hasCycle(edges)
	return f
}

// hasCycle decides whether the input (self loops ignored) has a directed cycle. Independent of autog (Kahn's algorithm).
func hasCycle(edges [][]string) bool {
	indeg := map[string]int{}
	out := map[string][]string{}
	for _, e := range edges {
		if len(e) != 2 || e[0] == e[1] {
			continue
		}
		out[e[0]] = append(out[e[0]], e[1])
		indeg[e[1]]++
		if _, ok := indeg[e[0]]; !ok {
			indeg[e[0]] = 0
		}
	}
	var q []string
	for n, d := range indeg {
		if d == 0 {
			q = append(q, n)
		}
	}
	seen := 0
	for len(q) > 0 {
		n := q[len(q)-1]
		q = q[:len(q)-1]
		seen++
		for _, m := range out[n] {
			indeg[m]--
			if indeg[m] == 0 {
				q = append(q, m)
			}
		}
	}
	return seen != len(indeg)
}

// matchEdges pairs every input edge with a distinct output edge of the same (from,to), in order of appearance.
// It returns the output index per input edge (-1 if none is left).
func matchEdges(edges [][]string, l graph.Layout) []int {
	byKey := map[[2]string][]int{}
	for i, e := range l.Edges {
		k := [2]string{e.FromID, e.ToID}
		byKey[k] = append(byKey[k], i)
	}
	out := make([]int, len(edges))
	for i, e := range edges {
		k := [2]string{e[0], e[1]}
		if q := byKey[k]; len(q) > 0 {
			out[i] = q[0]
			byKey[k] = q[1:]
		} else {
			out[i] = -1
		}
	}
	return out
}

func fmtEdge(e graph.Edge) string {
	a := ""
	if e.ArrowHeadStart {
		a = " arrow@start"
	}
	return fmt.Sprintf("%s->%s%s points=%v", e.FromID, e.ToID, a, e.Points)
}

func fmtNode(n graph.Node) string {
	return fmt.Sprintf("%s{x=%v y=%v w=%v h=%v}", n.ID, n.X, n.Y, n.W, n.H)
}

// noReturn converts a panic into the skip result used by every check except C01.
func noReturn(p *core.PanicInfo) Result {
	r := skipped("noreturn")
	r.Detail = p.Func + ": " + p.Class
	return r
}

// sample builds the evidence sample of a layout case.
func layoutSample(c *core.Case, l graph.Layout, extra map[string]any) map[string]any {
	m := map[string]any{
		"index":  c.Index,
		"family": c.Family,
		"cell":   c.Opts.Cell(),
		"edges":  c.Edges,
		"opts":   c.Opts,
		"output": core.DescribeLayout(l, 12),
	}
	for k, v := range extra {
		m[k] = v
	}
	return m
}
