package oracle

import (
	"fmt"
	"math"
	"math/rand"
	"reflect"
	"runtime/debug"

	"github.com/nulab/autog"

	"verifharness/core"
	"verifharness/gen"
	"verifharness/model"
)

// phase5Case builds a layout case with splines routing whose corridors are captured through the public monitor
// (second population of C19/C20: the corridors phase 5 actually builds).
func phase5Case(prop string, seed int64, tier string, idx int) *core.Case {
	r := rng(prop, seed, tier, idx)
	c := &core.Case{Prop: prop, Tier: tier, Seed: seed, Index: idx}
	g := gen.Skip(r, 3+r.Intn(5), 1, 4, 0.35, 1+r.Intn(6), 2+r.Intn(4))
	if r.Intn(4) == 0 {
		g = gen.Mixed(r, 14)
	}
	c.Family, c.Edges = "phase5-captured("+g.Family+")", gen.Names(g)
	ids := nodeIDs(c.Edges)
	o := fastCell(r, len(ids), true)
	o.Router = 3
	c.Regime = pickRegime(r)
	if o.Positioner == 3 {
		c.Regime = "integer"
	}
	if r.Intn(5) > 0 {
		heteroSizes(r, &o, ids, c.Regime, 100, 0.05)
	} else {
		applySizes(r, &o, ids, r.Intn(sizeModes), c.Regime, 100)
	}
	o.NodeSpacing = spacingVal(r, c.Regime, true)
	o.LayerSpacing = spacingVal(r, c.Regime, true)
	capNS(&o)
	c.Opts = o
	return c
}

func pointOf(v any) ([2]float64, bool) {
	rv := reflect.ValueOf(v)
	if rv.Kind() != reflect.Struct || rv.NumField() != 2 || rv.Field(0).Kind() != reflect.Float64 {
		return [2]float64{}, false
	}
	return [2]float64{rv.Field(0).Float(), rv.Field(1).Float()}, true
}

// captureCorridors runs the layout with a recording monitor and returns the corridors the splines router handed to
// geom.Shortest (events "rect", "shortest-start", "shortest-end" of phase 5), read through reflection at full precision.
func captureCorridors(c *core.Case) ([]core.Corridor, *core.PanicInfo) {
	rec := &core.Recorder{}
	res := core.Run(c.Edges, c.Opts, autog.WithMonitor(rec))
	if res.Panic != nil {
		return nil, res.Panic
	}
	var out []core.Corridor
	var cur *core.Corridor
	for _, e := range rec.Events {
		if e.Phase != 5 {
			continue
		}
		switch e.Key {
		case "spline":
			out = append(out, core.Corridor{Kind: "phase5"})
			cur = &out[len(out)-1]
		case "rect":
			rv := reflect.ValueOf(e.Val)
			if cur == nil || rv.Kind() != reflect.Struct || rv.NumField() != 2 {
				continue
			}
			tl, ok1 := pointOf(rv.Field(0).Interface())
			br, ok2 := pointOf(rv.Field(1).Interface())
			if ok1 && ok2 {
				cur.Rects = append(cur.Rects, [4]float64{tl[0], tl[1], br[0], br[1]})
			}
		case "shortest-start":
			if p, ok := pointOf(e.Val); ok && cur != nil {
				cur.Start = p
			}
		case "shortest-end":
			if p, ok := pointOf(e.Val); ok && cur != nil {
				cur.End = p
			}
		}
	}
	return out, nil
}

// judgeCaptured applies the C19 oracle (and, with fit, the C20 containment oracle) to every well-formed captured corridor.
func judgeCaptured(id string, c *core.Case, fit bool) Result {
	cors, p := captureCorridors(c)
	if p != nil {
		return noReturn(p)
	}
	r := held()
	for i := range cors {
		co := &cors[i]
		degenerate := false
		for _, rc := range co.Rects {
			if !(rc[2] > rc[0] && rc[3] > rc[1]) {
				degenerate = true
			}
		}
		if degenerate || len(co.Rects) == 0 {
			r.stat("captured_degenerate_corridors_not_routed", 1)
			continue
		}
		if err := model.WellFormed(co.Rects, co.Start, co.End); err != nil {
			// logged by the router before its own precondition check; such corridors are not routed (straight fallback)
			_ = err
			r.stat("captured_malformed_corridors_not_judged", 1)
			r.stat("captured_malformed_corridors_not_judged:"+core.PositionerNames[c.Opts.Positioner], 1)
			continue
		}
		path, pi := callShortest(co)
		if pi != nil {
			return violated("C19/panic/"+pi.Func+"/"+pi.Class, fmt.Sprintf("geom.Shortest panicked on a well-formed corridor built by phase 5: %s; corridor %v start %v end %v", pi.Msg, co.Rects, co.Start, co.End))
		}
		res, _, refPath := checkShortest("C19", co, path)
		if res.Verdict != Held {
			if fit {
				return skipped("C19")
			}
			res.Detail = "corridor built by phase 5: " + fmt.Sprint(*co) + "\n" + res.Detail
			return res
		}
		r.stat("captured_corridors_judged", 1)
		if len(refPath) >= 3 {
			r.Nontrivial = true
		}
		if fit && len(path) >= 3 {
			pieces, pf := callFitSpline(path, co.Rects)
			if pf != nil {
				return violated("C20/fit/panic/"+pf.Func+"/"+pf.Class, fmt.Sprintf("FitSpline panicked on a corridor built by phase 5: %s; corridor %v path %v", pf.Msg, co.Rects, path))
			}
			fr := checkFit("C20", co, path, pieces)
			if fr.Verdict != Held {
				return fr
			}
			r.stat("captured_fits", 1)
			for k, v := range fr.Stats {
				r.stat(k, v)
			}
		}
	}
	return r
}

func corridorCase(prop string, seed int64, tier string, idx int) *core.Case {
	if idx%10 == 9 {
		return phase5Case(prop, seed, tier, idx)
	}
	r := rng(prop, seed, tier, idx)
	k := 1 + r.Intn(12)
	switch r.Intn(16) {
	case 0, 1:
		k = 1
	case 2, 3:
		k = 13 + r.Intn(48) // long corridors (edges over dozens of layers): deep recursion of the fitter, long funnels
	}
	spec := gen.Corridor(r, k, r.Intn(2) == 0)
	fam := "generated-dyadic"
	if len(spec.Rects) > 0 && math.Mod(spec.Rects[0][2], 5) == 0 && math.Mod(spec.Rects[0][0], 5) == 0 && math.Mod(spec.Rects[0][3], 5) == 0 {
		fam = "generated-grid"
	}
	if prop == "C19" && r.Intn(16) == 0 {
		// the property ranges over all well-formed corridors, whatever their size: one power of two far outside the usual
		// range (exact for these inputs) shows absolute thresholds in the orientation tests, trimming and funnel code
		f := math.Ldexp(1, []int{-30, -24, -20, -10, 10, 20, 30}[r.Intn(7)])
		for i := range spec.Rects {
			for j := range spec.Rects[i] {
				spec.Rects[i][j] *= f
			}
		}
		spec.Start = [2]float64{spec.Start[0] * f, spec.Start[1] * f}
		spec.End = [2]float64{spec.End[0] * f, spec.End[1] * f}
		fam += "-scaled"
	}
	if prop == "C20" && r.Intn(8) == 0 {
		// long runs that graze a corner: the corridor is enlarged (x8..x32, exact) and one wall is moved to within a
		// fraction of a unit of the longest segment of the shortest path, where that segment crosses a band boundary
		f := math.Ldexp(1, 3+r.Intn(3))
		for i := range spec.Rects {
			for j := range spec.Rects[i] {
				spec.Rects[i][j] *= f
			}
		}
		spec.Start = [2]float64{spec.Start[0] * f, spec.Start[1] * f}
		spec.End = [2]float64{spec.End[0] * f, spec.End[1] * f}
		fam += "-long-runs"
		if pinchCorridor(r, &spec) {
			fam += "-pinched"
		}
	}
	return &core.Case{Prop: prop, Tier: tier, Seed: seed, Index: idx, Family: fam,
		Corridor: &core.Corridor{Rects: spec.Rects, Start: spec.Start, End: spec.End, Kind: spec.Kind}}
}

// pinchCorridor moves one vertical wall of the corridor to a horizontal distance of 0.03..0.5 from the point where the
// longest segment of the (reference) shortest path crosses a band boundary, on the side where the path does not go, so that
// the path stays inside (the corridor only shrinks: the shortest path is unchanged) and grazes the new corner.
func pinchCorridor(r *rand.Rand, spec *gen.CorridorSpec) bool {
	scale := 0.0
	for _, rc := range spec.Rects {
		for _, v := range rc {
			scale = math.Max(scale, math.Abs(v))
		}
	}
	tol := 1e-9 * scale
	_, path := model.ShortestPath(spec.Rects, spec.Start, spec.End, tol)
	if len(path) < 3 {
		return false
	}
	best, bl := -1, 0.0
	for i := 1; i < len(path); i++ {
		if l := math.Hypot(path[i][0]-path[i-1][0], path[i][1]-path[i-1][1]); l > bl {
			best, bl = i, l
		}
	}
	a, b := path[best-1], path[best]
	if a[1] > b[1] {
		a, b = b, a
	}
	dx := b[0] - a[0]
	if dx == 0 || b[1] == a[1] {
		return false
	}
	delta := []float64{0.03, 0.06, 0.1, 0.2, 0.5}[r.Intn(5)]
	var cands []int
	for i := 0; i+1 < len(spec.Rects); i++ {
		if yb := spec.Rects[i][3]; yb > a[1] && yb < b[1] {
			cands = append(cands, i)
		}
	}
	r.Shuffle(len(cands), func(i, j int) { cands[i], cands[j] = cands[j], cands[i] })
	for _, i := range cands {
		yb := spec.Rects[i][3]
		xb := a[0] + dx*(yb-a[1])/(b[1]-a[1])
		saved := [2][4]float64{spec.Rects[i], spec.Rects[i+1]}
		// above the boundary the path is on the side it comes from, below on the side it goes to
		if (dx > 0) == (r.Intn(2) == 0) {
			if dx > 0 {
				spec.Rects[i][2] = math.Min(spec.Rects[i][2], xb+delta) // right wall of the upper rectangle
			} else {
				spec.Rects[i][0] = math.Max(spec.Rects[i][0], xb-delta) // left wall of the upper rectangle
			}
		} else {
			if dx > 0 {
				spec.Rects[i+1][0] = math.Max(spec.Rects[i+1][0], xb-delta) // left wall of the lower rectangle
			} else {
				spec.Rects[i+1][2] = math.Min(spec.Rects[i+1][2], xb+delta) // right wall of the lower rectangle
			}
		}
		changed := spec.Rects[i] != saved[0] || spec.Rects[i+1] != saved[1]
		if changed && model.WellFormed(spec.Rects, spec.Start, spec.End) == nil && model.PolylineInside(spec.Rects, path, tol) < 0 {
			return true
		}
		spec.Rects[i], spec.Rects[i+1] = saved[0], saved[1]
	}
	return false
}

// callShortest invokes the real geom.Shortest through the verif export.
func callShortest(c *core.Corridor) (path [][2]float64, p *core.PanicInfo) {
	core.Evaluations.Add(1)
	defer func() {
		if v := recover(); v != nil {
			p = core.ClassifyPanic(v, string(debug.Stack()))
		}
	}()
	path = autog.VerifShortest(c.Start, c.End, c.Rects)
	return
}

// checkShortest is the C19 oracle proper, shared with C20 and with the corridors captured from phase 5.
func checkShortest(id string, c *core.Corridor, path [][2]float64) (Result, float64, []model.Pt) {
	scale := 0.0 // no absolute floor: a corridor of size 1e-6 is judged with the same relative sharpness as one of size 100
	for _, rc := range c.Rects {
		for _, v := range rc {
			scale = math.Max(scale, math.Abs(v))
		}
	}
	tol := 1e-9 * scale
	if len(path) < 2 {
		return violated(id+"/path/too-short", fmt.Sprintf("path has %d points: %v", len(path), path)), 0, nil
	}
	for _, p := range path {
		if !finite(p[0], p[1]) {
			return violated(id+"/path/non-finite", fmt.Sprintf("path %v", path)), 0, nil
		}
	}
	if path[0] != c.End || path[len(path)-1] != c.Start {
		return violated(id+"/path/endpoints", fmt.Sprintf("path runs %v .. %v, want end %v .. start %v", path[0], path[len(path)-1], c.End, c.Start)), 0, nil
	}
	if i := model.PolylineInside(c.Rects, path, tol); i >= 0 {
		return violated(id+"/path/leaves-corridor", fmt.Sprintf("segment %v -> %v leaves the corridor; path %v", path[i], path[i+1], path)), 0, nil
	}
	ref, refPath := model.ShortestPath(c.Rects, c.Start, c.End, tol)
	got := model.PolylineLen(path)
	if got > ref*(1+1e-9)+tol {
		return violated(id+"/path/not-shortest", fmt.Sprintf("returned length %.12g > shortest %.12g; returned %v; reference %v", got, ref, path, refPath)), ref, refPath
	}
	if got < ref*(1-1e-9)-tol {
		// a path inside the corridor cannot beat the true shortest path: the reference model is wrong
		panic(fmt.Sprintf("reference model inconsistent: returned path %v (len %.12g) is inside the corridor but shorter than the reference %v (len %.12g)", path, got, refPath, ref))
	}
	return held(), ref, refPath
}

func init() {
	register(&Property{
		ID:    "C19",
		Title: "Corridor shortest path is shortest and stays inside",
		Count: counts(60000, 1000000),
		Rule: "generated well-formed corridors of 1..12 (12 %: 13..60) stacked rectangles; each next rectangle drawn from 9 offset patterns (same, equal left/right edge wider/narrower, " +
			"widen both, narrow both, shift left/right); half grid-snapped to multiples of 5 (many equal edges), half dyadic; 6 % scaled by one power of two in 2^-30 .. 2^30; start/end kinds: outer boundary (what phase 5 passes), " +
			"boundary midpoint, interior, outer corner, vertical side; oracle: end points, containment per rectangle band, length vs visibility-graph Dijkstra; " +
			"every tenth case instead lays out a graph with long edges using splines routing and judges the corridors phase 5 itself builds, captured through the public monitor; " +
			"non-trivial = the reference shortest path bends (>= 3 points)",
		MinNontrivial:    counts(5000, 80000),
		DeathIsViolation: true,
		Required:         []string{"shape:widen-both", "shape:narrow-both", "shape:shift-left", "shape:shift-right", "shape:same", "kind:corner", "kind:interior", "kind:boundary", "tiny_corridors", "huge_corridors"},
		Assumptions: []string{
			"well-formed corridor: positive widths/heights, rect i+1 starts where rect i ends, consecutive rects share a boundary segment of positive length",
			"containment and length are compared with relative tolerance 1e-9",
		},
		Gen: func(seed int64, tier string, idx int) *core.Case { return corridorCase("C19", seed, tier, idx) },
		Check: func(c *core.Case, wantSample bool) Result {
			if c.Corridor == nil {
				return judgeCaptured("C19", c, false)
			}
			co := c.Corridor
			if err := model.WellFormed(co.Rects, co.Start, co.End); err != nil {
				panic("generator produced a malformed corridor: " + err.Error())
			}
			path, p := callShortest(co)
			if p != nil {
				return violated("C19/panic/"+p.Func+"/"+p.Class, fmt.Sprintf("geom.Shortest panicked: %s in %s on corridor %v start %v end %v\n%s", p.Msg, p.Func, co.Rects, co.Start, co.End, p.Stack))
			}
			r, _, refPath := checkShortest("C19", co, path)
			r.Nontrivial = len(refPath) >= 3
			r.stat("rects", len(co.Rects))
			r.stat("kind:"+kindClass(co.Kind), 1)
			if ext := co.Rects[len(co.Rects)-1][3]; ext < 1e-2 {
				r.stat("tiny_corridors", 1)
			} else if ext > 1e5 {
				r.stat("huge_corridors", 1)
			}
			for _, s := range shapesOf(co.Rects) {
				r.stat("shape:"+s, 1)
			}
			if len(refPath) >= 3 {
				r.stat("bending_reference_paths", 1)
			}
			if wantSample && r.Verdict == Held {
				r.Sample = map[string]any{"index": c.Index, "corridor": co, "returned_path": path, "reference_path": refPath}
			}
			return r
		},
	})
}

func kindClass(kind string) string {
	switch {
	case contains(kind, "corner"):
		return "corner"
	case contains(kind, "interior"):
		return "interior"
	case contains(kind, "side"):
		return "side"
	default:
		return "boundary"
	}
}

func contains(s, sub string) bool {
	for i := 0; i+len(sub) <= len(s); i++ {
		if s[i:i+len(sub)] == sub {
			return true
		}
	}
	return false
}

// shapesOf classifies the offset pattern of consecutive rectangles (measured on the corridor itself, not taken from the generator).
func shapesOf(rects [][4]float64) []string {
	var out []string
	for i := 1; i < len(rects); i++ {
		p, r := rects[i-1], rects[i]
		dl, dr := r[0]-p[0], r[2]-p[2]
		switch {
		case dl == 0 && dr == 0:
			out = append(out, "same")
		case dl == 0:
			out = append(out, "eq-left")
		case dr == 0:
			out = append(out, "eq-right")
		case dl < 0 && dr > 0:
			out = append(out, "widen-both")
		case dl > 0 && dr < 0:
			out = append(out, "narrow-both")
		case dl < 0 && dr < 0:
			out = append(out, "shift-left")
		default:
			out = append(out, "shift-right")
		}
	}
	return out
}
