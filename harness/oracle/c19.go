package oracle

import (
	"fmt"
	"math"
	"runtime/debug"

	"github.com/nulab/autog"

	"verifharness/core"
	"verifharness/gen"
	"verifharness/model"
)

func corridorCase(prop string, seed int64, tier string, idx int) *core.Case {
	r := rng(prop, seed, tier, idx)
	k := 1 + r.Intn(12)
	if r.Intn(8) == 0 {
		k = 1
	}
	spec := gen.Corridor(r, k, r.Intn(2) == 0)
	fam := "generated-dyadic"
	if len(spec.Rects) > 0 && math.Mod(spec.Rects[0][2], 5) == 0 && math.Mod(spec.Rects[0][0], 5) == 0 && math.Mod(spec.Rects[0][3], 5) == 0 {
		fam = "generated-grid"
	}
	return &core.Case{Prop: prop, Tier: tier, Seed: seed, Index: idx, Family: fam,
		Corridor: &core.Corridor{Rects: spec.Rects, Start: spec.Start, End: spec.End, Kind: spec.Kind}}
}

// callShortest invokes the real geom.Shortest through the verif export.
func callShortest(c *core.Corridor) (path [][2]float64, p *core.PanicInfo) {
	core.Evaluations.Add(1)
	defer func() {
		if v := recover(); v != nil {
			p = core.ClassifyPanic(v, string(debug.Stack()))
		}
	}()
	path = autog.VerifShortest(c.Start, c.End, c.Rects)
	return
}

// checkShortest is the C19 oracle proper, shared with C20 and with the corridors captured from phase 5.
func checkShortest(id string, c *core.Corridor, path [][2]float64) (Result, float64, []model.Pt) {
	scale := 1.0
	for _, rc := range c.Rects {
		for _, v := range rc {
			scale = math.Max(scale, math.Abs(v))
		}
	}
	tol := 1e-9 * scale
	if len(path) < 2 {
		return violated(id+"/path/too-short", fmt.Sprintf("path has %d points: %v", len(path), path)), 0, nil
	}
	for _, p := range path {
		if !finite(p[0], p[1]) {
			return violated(id+"/path/non-finite", fmt.Sprintf("path %v", path)), 0, nil
		}
	}
	if path[0] != c.End || path[len(path)-1] != c.Start {
		return violated(id+"/path/endpoints", fmt.Sprintf("path runs %v .. %v, want end %v .. start %v", path[0], path[len(path)-1], c.End, c.Start)), 0, nil
	}
	if i := model.PolylineInside(c.Rects, path, tol); i >= 0 {
		return violated(id+"/path/leaves-corridor", fmt.Sprintf("segment %v -> %v leaves the corridor; path %v", path[i], path[i+1], path)), 0, nil
	}
	ref, refPath := model.ShortestPath(c.Rects, c.Start, c.End, tol)
	got := model.PolylineLen(path)
	if got > ref*(1+1e-9)+tol {
		return violated(id+"/path/not-shortest", fmt.Sprintf("returned length %.12g > shortest %.12g; returned %v; reference %v", got, ref, path, refPath)), ref, refPath
	}
	if got < ref*(1-1e-9)-tol {
		// a path inside the corridor cannot beat the true shortest path: the reference model is wrong
		panic(fmt.Sprintf("reference model inconsistent: returned path %v (len %.12g) is inside the corridor but shorter than the reference %v (len %.12g)", path, got, refPath, ref))
	}
	return held(), ref, refPath
}

func init() {
	register(&Property{
		ID:    "C19",
		Title: "Corridor shortest path is shortest and stays inside",
		Count: counts(60000, 1000000),
		Rule: "generated well-formed corridors of 1..12 stacked rectangles; each next rectangle drawn from 9 offset patterns (same, equal left/right edge wider/narrower, " +
			"widen both, narrow both, shift left/right); half grid-snapped to multiples of 5 (many equal edges), half dyadic; start/end kinds: outer boundary (what phase 5 passes), " +
			"boundary midpoint, interior, outer corner, vertical side; oracle: end points, containment per rectangle band, length vs visibility-graph Dijkstra; " +
			"non-trivial = the reference shortest path bends (>= 3 points)",
		MinNontrivial:    counts(5000, 80000),
		DeathIsViolation: true,
		Required:         []string{"shape:widen-both", "shape:narrow-both", "shape:shift-left", "shape:shift-right", "shape:same", "kind:corner", "kind:interior", "kind:boundary"},
		Assumptions: []string{
			"well-formed corridor: positive widths/heights, rect i+1 starts where rect i ends, consecutive rects share a boundary segment of positive length",
			"containment and length are compared with relative tolerance 1e-9",
		},
		Gen: func(seed int64, tier string, idx int) *core.Case { return corridorCase("C19", seed, tier, idx) },
		Check: func(c *core.Case, wantSample bool) Result {
			co := c.Corridor
			if err := model.WellFormed(co.Rects, co.Start, co.End); err != nil {
				panic("generator produced a malformed corridor: " + err.Error())
			}
			path, p := callShortest(co)
			if p != nil {
				return violated("C19/panic/"+p.Func+"/"+p.Class, fmt.Sprintf("geom.Shortest panicked: %s in %s on corridor %v start %v end %v\n%s", p.Msg, p.Func, co.Rects, co.Start, co.End, p.Stack))
			}
			r, _, refPath := checkShortest("C19", co, path)
			r.Nontrivial = len(refPath) >= 3
			r.stat("rects", len(co.Rects))
			r.stat("kind:"+kindClass(co.Kind), 1)
			for _, s := range shapesOf(co.Rects) {
				r.stat("shape:"+s, 1)
			}
			if len(refPath) >= 3 {
				r.stat("bending_reference_paths", 1)
			}
			if wantSample && r.Verdict == Held {
				r.Sample = map[string]any{"index": c.Index, "corridor": co, "returned_path": path, "reference_path": refPath}
			}
			return r
		},
	})
}

func kindClass(kind string) string {
	switch {
	case contains(kind, "corner"):
		return "corner"
	case contains(kind, "interior"):
		return "interior"
	case contains(kind, "side"):
		return "side"
	default:
		return "boundary"
	}
}

func contains(s, sub string) bool {
	for i := 0; i+len(sub) <= len(s); i++ {
		if s[i:i+len(sub)] == sub {
			return true
		}
	}
	return false
}

// shapesOf classifies the offset pattern of consecutive rectangles (measured on the corridor itself, not taken from the generator).
func shapesOf(rects [][4]float64) []string {
	var out []string
	for i := 1; i < len(rects); i++ {
		p, r := rects[i-1], rects[i]
		dl, dr := r[0]-p[0], r[2]-p[2]
		switch {
		case dl == 0 && dr == 0:
			out = append(out, "same")
		case dl == 0:
			out = append(out, "eq-left")
		case dr == 0:
			out = append(out, "eq-right")
		case dl < 0 && dr > 0:
			out = append(out, "widen-both")
		case dl > 0 && dr < 0:
			out = append(out, "narrow-both")
		case dl < 0 && dr < 0:
			out = append(out, "shift-left")
		default:
			out = append(out, "shift-right")
		}
	}
	return out
}
