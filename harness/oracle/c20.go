package oracle

import (
	"fmt"
	"math"
	"math/big"
	"math/rand"
	"runtime/debug"

	"github.com/nulab/autog"

	"verifharness/core"
	"verifharness/model"
)

const bigPrec = 256

func bf(x float64) *big.Float { return new(big.Float).SetPrec(bigPrec).SetFloat64(x) }

// expandRoots returns the coefficients (increasing degree) of lead * prod (x - r_i), computed in big.Float and rounded once.
func expandRoots(lead float64, roots []float64) []float64 {
	coef := []*big.Float{bf(lead)}
	for _, r := range roots {
		next := make([]*big.Float, len(coef)+1)
		for i := range next {
			next[i] = bf(0)
		}
		for i, c := range coef {
			// c*x^i * (x - r)
			next[i+1].Add(next[i+1], c)
			t := new(big.Float).SetPrec(bigPrec).Mul(c, bf(r))
			next[i].Sub(next[i], t)
		}
		coef = next
	}
	out := make([]float64, 4)
	for i, c := range coef {
		out[i], _ = c.Float64()
	}
	return out
}

func addPoly(a, b []float64) []float64 {
	out := make([]float64, 4)
	for i := range out {
		if i < len(a) {
			out[i] += a[i]
		}
		if i < len(b) {
			out[i] += b[i]
		}
	}
	return out
}

func evalBig(c []float64, x *big.Float) *big.Float {
	acc := bf(0)
	for i := len(c) - 1; i >= 0; i-- {
		acc.Mul(acc, x)
		acc.Add(acc, bf(c[i]))
	}
	return acc
}

func derivCoef(c []float64) []float64 {
	d := make([]float64, len(c)-1)
	for i := 1; i < len(c); i++ {
		d[i-1] = float64(i) * c[i]
	}
	return d
}

// refine runs Newton's method in big.Float on the given (already rounded) polynomial, starting from x0. It returns the refined
// root and whether the iteration converged to a point where the polynomial vanishes (relative to its condition).
func refine(c []float64, x0 float64) (float64, bool) {
	x := bf(x0)
	d := derivCoef(c)
	for it := 0; it < 80; it++ {
		fx := evalBig(c, x)
		dx := evalBig(d, x)
		if dx.Sign() == 0 {
			break
		}
		step := new(big.Float).SetPrec(bigPrec).Quo(fx, dx)
		x.Sub(x, step)
		s, _ := step.Float64()
		xf, _ := x.Float64()
		if math.Abs(s) <= 1e-30*math.Max(1, math.Abs(xf)) {
			break
		}
	}
	xf, _ := x.Float64()
	// the given polynomial differs from the constructed one by rounding and, for the tiny-coefficient kinds, by an extra
	// term that moves large roots noticeably: accept the refined root if it stayed in the neighbourhood
	if math.IsNaN(xf) || math.IsInf(xf, 0) || math.Abs(xf-x0) > 0.05*math.Max(1, math.Abs(x0)) {
		return x0, false
	}
	// converged iff the residual is far below what float64 evaluation could resolve
	res, _ := evalBig(c, bf(xf)).Float64()
	scale := 0.0
	for i, ci := range c {
		scale += math.Abs(ci) * math.Pow(math.Abs(xf), float64(i))
	}
	return xf, math.Abs(res) <= 1e-12*math.Max(scale, 1e-300)
}

func condNumber(c []float64, rho float64) float64 {
	num := 0.0
	for i, ci := range c {
		num += math.Abs(ci) * math.Pow(math.Abs(rho), float64(i))
	}
	d := derivCoef(c)
	dp := 0.0
	for i := len(d) - 1; i >= 0; i-- {
		dp = dp*rho + d[i]
	}
	den := math.Abs(rho) * math.Abs(dp)
	if den == 0 {
		return math.Inf(1)
	}
	return num / den
}

const solverEps = 1e-7 // epsilon3 of the solver: coefficients smaller than this are treated as zero

// polyCase builds one root finder input.
func polyCase(r *rand.Rand) *core.Poly {
	root := func() float64 {
		switch r.Intn(4) {
		case 0:
			return float64(r.Intn(1001)) / 1000 // in [0,1], the parameter range of a Bézier piece
		case 1:
			return float64(r.Intn(41)-20) / 4
		case 2:
			return (r.Float64()*2 - 1) * 100
		default:
			return r.Float64()*2 - 0.5
		}
	}
	lead := func() float64 {
		l := math.Pow(10, r.Float64()*4-2) // 0.01 .. 100
		if r.Intn(2) == 0 {
			l = -l
		}
		return l
	}
	tiny := []float64{0, 0.5, -0.5, 0.99, -0.99, 1.01, -1.01, 2, -2, 10, -10}
	p := &core.Poly{}
	switch k := r.Intn(14); {
	case k == 12:
		// small roots: the constant term a*r1*r2*r3 is far below the solver's epsilon although it is not zero
		p.Kind = "three-small-real"
		small := func() float64 {
			v := float64(1+r.Intn(99)) * math.Pow(10, float64(-2-r.Intn(3)))
			if r.Intn(2) == 0 {
				v = -v
			}
			return v
		}
		p.Roots = []float64{small(), small(), root()}
		if r.Intn(2) == 0 {
			p.Roots[2] = small()
		}
		p.Coeff = expandRoots(lead(), p.Roots)
	case k == 13:
		// the whole polynomial scaled down: leading coefficient just above the solver's epsilon, ordinary roots
		p.Kind = "scaled-down"
		p.Roots = []float64{float64(r.Intn(1501)) / 1000, float64(r.Intn(1501)) / 1000, float64(r.Intn(1501)) / 1000}
		l := (1.01 + r.Float64()*50) * solverEps
		if r.Intn(2) == 0 {
			l = -l
		}
		p.Coeff = expandRoots(l, p.Roots)
	case k <= 2:
		p.Kind = "three-real"
		p.Roots = []float64{root(), root(), root()}
		p.Coeff = expandRoots(lead(), p.Roots)
	case k <= 4:
		p.Kind = "one-real+complex-pair"
		// (x - r)(x^2 + px + q) with p^2 < 4q
		re, im := root(), 0.05+r.Float64()*5
		quad := []float64{re*re + im*im, -2 * re, 1} // roots re +- i*im
		p.Roots = []float64{root()}
		lin := expandRoots(lead(), p.Roots) // lead*(x - r)
		// multiply lin (deg 1) by quad (deg 2) in big.Float
		out := make([]*big.Float, 4)
		for i := range out {
			out[i] = bf(0)
		}
		for i := 0; i < 2; i++ {
			for j := 0; j < 3; j++ {
				out[i+j].Add(out[i+j], new(big.Float).SetPrec(bigPrec).Mul(bf(lin[i]), bf(quad[j])))
			}
		}
		p.Coeff = make([]float64, 4)
		for i := range out {
			p.Coeff[i], _ = out[i].Float64()
		}
	case k == 5:
		p.Kind = "double-root"
		a, b := root(), root()
		p.Roots = []float64{a, a, b}
		p.Coeff = expandRoots(lead(), p.Roots)
	case k == 6:
		p.Kind = "triple-root"
		a := root()
		p.Roots = []float64{a, a, a}
		p.Coeff = expandRoots(lead(), p.Roots)
	case k <= 8:
		p.Kind = "tiny-cubic-coefficient"
		p.Roots = []float64{root(), root()}
		quad := expandRoots(lead(), p.Roots)
		a := tiny[r.Intn(len(tiny))] * solverEps
		p.Coeff = addPoly(quad, []float64{0, 0, 0, a})
	case k == 9:
		p.Kind = "tiny-quadratic-coefficient"
		p.Roots = []float64{root()}
		lin := expandRoots(lead(), p.Roots)
		b := tiny[r.Intn(len(tiny))] * solverEps
		p.Coeff = addPoly(lin, []float64{0, 0, b, 0})
	case k == 10:
		p.Kind = "quadratic"
		if r.Intn(3) == 0 {
			re, im := root(), 0.1+r.Float64()
			p.Coeff = []float64{re*re + im*im, -2 * re, 1, 0}
		} else {
			p.Roots = []float64{root(), root()}
			p.Coeff = expandRoots(lead(), p.Roots)
		}
	default:
		p.Kind = "linear"
		p.Roots = []float64{root()}
		p.Coeff = expandRoots(lead(), p.Roots)
	}
	return p
}

type refRoot struct {
	rho      float64
	tol      float64
	demanded bool   // completeness applies (robustly real: odd multiplicity, finite, not created by a sub-epsilon leading term)
	note     string //
}

// referenceRoots derives the judged root set of the *given* polynomial from the construction roots.
func referenceRoots(p *core.Poly) []refRoot {
	const em = 2.220446049250313e-16
	c := p.Coeff
	mult := map[float64]int{}
	for _, r := range p.Roots {
		mult[r]++
	}
	var out []refRoot
	for r0, m := range mult {
		switch m {
		case 1:
			rho, ok := refine(c, r0)
			if !ok {
				// two construction roots so close that rounding merged or split them: treat like a double root
				out = append(out, refRoot{rho: r0, tol: 1e-3 * math.Max(1, math.Abs(r0)), demanded: false, note: "ill-conditioned simple root"})
				continue
			}
			kappa := condNumber(c, rho)
			tol := math.Max(1e-6, 1e3*em*kappa) * math.Max(1, math.Abs(rho))
			rr := refRoot{rho: rho, tol: tol, demanded: true}
			// documented behaviour: a leading coefficient below epsilon is dropped; allow exactly its first-order effect
			lead, deg := 0.0, 0
			if math.Abs(c[3]) < solverEps && c[3] != 0 {
				lead, deg = c[3], 3
			} else if math.Abs(c[3]) < solverEps && math.Abs(c[2]) < solverEps && c[2] != 0 {
				lead, deg = c[2], 2
			}
			if deg > 0 {
				d := derivCoef(c)
				dp := 0.0
				for i := len(d) - 1; i >= 0; i-- {
					dp = dp*rho + d[i]
				}
				if dp != 0 {
					rr.tol += 2 * math.Abs(lead) * math.Pow(math.Abs(rho), float64(deg)) / math.Abs(dp)
				}
			}
			// a root that is robustly real only if tol is small compared with the distance to the nearest other construction root
			for other := range mult {
				if other != r0 && math.Abs(other-r0) < 4*rr.tol {
					rr.demanded = false
					rr.note = "closer to another root than the tolerance"
				}
			}
			out = append(out, rr)
		case 2:
			out = append(out, refRoot{rho: r0, tol: 1e2 * math.Sqrt(em) * math.Max(1, math.Abs(r0)) * 10, demanded: false, note: "double root (tangency): may be reported or not"})
		default:
			out = append(out, refRoot{rho: r0, tol: 1e2 * math.Cbrt(em) * math.Max(1, math.Abs(r0)), demanded: true, note: "triple root"})
		}
	}
	// a non-zero cubic (or, for linears, quadratic) coefficient added on top of the construction creates one more real
	// root far away (about -b/a); it is part of the given polynomial, so a returned value near it is sound. It is not demanded.
	switch p.Kind {
	case "tiny-cubic-coefficient":
		if c[3] != 0 && c[2] != 0 {
			if rho, ok := refine(c, -c[2]/c[3]); ok {
				out = append(out, refRoot{rho: rho, tol: 1e-5 * math.Abs(rho), demanded: false, note: "far root created by the added cubic term"})
			}
		}
	case "tiny-quadratic-coefficient":
		if c[2] != 0 && c[1] != 0 {
			if rho, ok := refine(c, -c[1]/c[2]); ok {
				out = append(out, refRoot{rho: rho, tol: 1e-5 * math.Abs(rho), demanded: false, note: "far root created by the added quadratic term"})
			}
		}
	}
	return out
}

func callSolve3(coeff []float64) (roots []float64, p *core.PanicInfo) {
	core.Evaluations.Add(1)
	defer func() {
		if v := recover(); v != nil {
			p = core.ClassifyPanic(v, string(debug.Stack()))
		}
	}()
	in := append([]float64{}, coeff...)
	roots = autog.VerifSolve3(in)
	return
}

func checkSolve3(p *core.Poly) Result {
	const em = 2.220446049250313e-16
	got, pi := callSolve3(p.Coeff)
	if pi != nil {
		return violated("C20/solve3/panic/"+pi.Class, fmt.Sprintf("solve3(%v) panicked: %s", p.Coeff, pi.Msg))
	}
	refs := referenceRoots(p)
	c := p.Coeff
	allZero := true
	for _, x := range c {
		if math.Abs(x) >= solverEps {
			allZero = false
		}
	}
	if allZero {
		return held() // degenerate: documented as "infinite solutions" (nil)
	}
	// completeness
	for _, rr := range refs {
		if !rr.demanded {
			continue
		}
		ok := false
		for _, g := range got {
			if math.Abs(g-rr.rho) <= rr.tol {
				ok = true
			}
		}
		if !ok {
			return violated("C20/solve3/missed-root/"+p.Kind, fmt.Sprintf("polynomial %v (built from roots %v, kind %s) has the real root %.17g (tolerance %.3g %s), solve3 returned %v",
				c, p.Roots, p.Kind, rr.rho, rr.tol, rr.note, got))
		}
	}
	// soundness
	for _, g := range got {
		if math.IsNaN(g) || math.IsInf(g, 0) {
			return violated("C20/solve3/non-finite/"+p.Kind, fmt.Sprintf("polynomial %v: solve3 returned %v", c, got))
		}
		ok := false
		for _, rr := range refs {
			if math.Abs(g-rr.rho) <= rr.tol {
				ok = true
			}
		}
		if !ok {
			// backward error: is g an exact root of a polynomial within rounding distance of the given one?
			res, _ := evalBig(c, bf(g)).Float64()
			scale := 0.0
			for i, ci := range c {
				scale += math.Abs(ci) * math.Pow(math.Abs(g), float64(i))
			}
			if math.Abs(res) <= 1e3*em*scale {
				ok = true
			}
			// the root created by a sub-epsilon leading coefficient is far away and not judged either way
			if !ok && (math.Abs(c[3]) < solverEps || (math.Abs(c[3]) < 100*solverEps && math.Abs(g) > 1e4)) && math.Abs(g) > 1e4 {
				ok = true
			}
		}
		if !ok {
			return violated("C20/solve3/non-root/"+p.Kind, fmt.Sprintf("polynomial %v (built from roots %v, kind %s): solve3 returned %v, but %.17g is not within tolerance of any real root %v",
				c, p.Roots, p.Kind, got, g, refs))
		}
	}
	r := held()
	r.stat("poly:"+p.Kind, 1)
	r.stat("roots_returned", len(got))
	return r
}

func callFitSpline(path [][2]float64, rects [][4]float64) (pieces [][4][2]float64, p *core.PanicInfo) {
	core.Evaluations.Add(1)
	defer func() {
		if v := recover(); v != nil {
			p = core.ClassifyPanic(v, string(debug.Stack()))
		}
	}()
	pieces = autog.VerifFitSpline(path, rects)
	return
}

// checkFit is the containment oracle of C20, shared with the corridors captured from phase 5.
func checkFit(id string, co *core.Corridor, path [][2]float64, pieces [][4][2]float64) Result {
	if len(pieces) == 0 {
		return violated(id+"/fit/no-pieces", fmt.Sprintf("FitSpline returned no piece for path %v", path))
	}
	for _, pc := range pieces {
		for _, q := range pc {
			if !finite(q[0], q[1]) {
				return violated(id+"/fit/non-finite", fmt.Sprintf("piece %v", pc))
			}
		}
	}
	if pieces[0][0] != path[0] {
		return violated(id+"/fit/start", fmt.Sprintf("first piece starts at %v, path starts at %v", pieces[0][0], path[0]))
	}
	if pieces[len(pieces)-1][3] != path[len(path)-1] {
		return violated(id+"/fit/end", fmt.Sprintf("last piece ends at %v, path ends at %v", pieces[len(pieces)-1][3], path[len(path)-1]))
	}
	for i := 1; i < len(pieces); i++ {
		if pieces[i][0] != pieces[i-1][3] {
			return violated(id+"/fit/join", fmt.Sprintf("piece %d ends at %v, piece %d starts at %v", i-1, pieces[i-1][3], i, pieces[i][0]))
		}
	}
	worst, worstAt := 0.0, [2]float64{}
	for _, pc := range pieces {
		ts := make([]float64, 0, 520)
		for k := 0; k <= 512; k++ {
			ts = append(ts, float64(k)/512)
		}
		// extrema of x(t) and y(t): roots of the derivative (a quadratic), solved here independently
		for dim := 0; dim < 2; dim++ {
			p0, p1, p2, p3 := pc[0][dim], pc[1][dim], pc[2][dim], pc[3][dim]
			a := 3 * (p3 - 3*p2 + 3*p1 - p0)
			b := 6 * (p2 - 2*p1 + p0)
			c := 3 * (p1 - p0)
			if a != 0 {
				if disc := b*b - 4*a*c; disc >= 0 {
					s := math.Sqrt(disc)
					ts = append(ts, (-b+s)/(2*a), (-b-s)/(2*a))
				}
			} else if b != 0 {
				ts = append(ts, -c/b)
			}
		}
		for _, t := range ts {
			if t < 0 || t > 1 || math.IsNaN(t) {
				continue
			}
			q := model.Bezier(pc, t)
			if d := model.PointDist(co.Rects, q); d > worst {
				worst, worstAt = d, q
			}
		}
		// the neighbourhood of every corridor corner the piece comes close to: a long piece grazing a corner strays outside
		// over a fraction of a unit only, far below the spacing of the uniform samples. Closest approach by ternary search
		// between the neighbours of the closest uniform sample, then 129 samples over about +-4 units of arc around it.
		lo, hi := [2]float64{math.Inf(1), math.Inf(1)}, [2]float64{math.Inf(-1), math.Inf(-1)}
		for _, q := range pc {
			for d := 0; d < 2; d++ {
				lo[d], hi[d] = math.Min(lo[d], q[d]), math.Max(hi[d], q[d])
			}
		}
		for _, rc := range co.Rects {
			for _, cn := range [][2]float64{{rc[0], rc[1]}, {rc[2], rc[1]}, {rc[0], rc[3]}, {rc[2], rc[3]}} {
				if cn[0] < lo[0]-1 || cn[0] > hi[0]+1 || cn[1] < lo[1]-1 || cn[1] > hi[1]+1 {
					continue
				}
				dist := func(t float64) float64 {
					q := model.Bezier(pc, t)
					return math.Hypot(q[0]-cn[0], q[1]-cn[1])
				}
				bk, bd := 0, math.Inf(1)
				for k := 0; k <= 512; k++ {
					if d := dist(float64(k) / 512); d < bd {
						bk, bd = k, d
					}
				}
				if bd > 16+math.Hypot(hi[0]-lo[0], hi[1]-lo[1])/256 {
					continue // the piece does not come near this corner
				}
				a, b := math.Max(0, float64(bk-1)/512), math.Min(1, float64(bk+1)/512)
				for it := 0; it < 60; it++ {
					m1, m2 := a+(b-a)/3, b-(b-a)/3
					if dist(m1) < dist(m2) {
						b = m2
					} else {
						a = m1
					}
				}
				tc := (a + b) / 2
				q0, q1 := model.Bezier(pc, math.Max(0, tc-1e-6)), model.Bezier(pc, math.Min(1, tc+1e-6))
				speed := math.Hypot(q1[0]-q0[0], q1[1]-q0[1]) / 2e-6
				if !(speed > 0) {
					continue
				}
				w := 4 / speed
				for k := -64; k <= 64; k++ {
					t := tc + w*float64(k)/64
					if t < 0 || t > 1 {
						continue
					}
					q := model.Bezier(pc, t)
					if d := model.PointDist(co.Rects, q); d > worst {
						worst, worstAt = d, q
					}
				}
			}
		}
	}
	if worst > 0.05 {
		return violated(id+"/fit/leaves-corridor/"+exitClass(co.Rects, pieces), fmt.Sprintf("the fitted curve reaches %v, %.4g outside the corridor %v; path %v; pieces %v", worstAt, worst, co.Rects, path, pieces))
	}
	r := held()
	r.stat("pieces", len(pieces))
	if len(pieces) >= 2 {
		r.stat("multi_piece_fits", 1)
	}
	return r
}

func init() {
	register(&Property{
		ID:    "C20",
		Title: "Fitted splines stay inside; root finder sound and complete",
		Count: counts(60000, 1000000),
		Rule: "even cases: generated well-formed corridors (as C19; an eighth of them enlarged x8..x32 with one wall moved to within 0.03..0.5 of the longest segment of the shortest path), path = real geom.Shortest, real geom.FitSpline with the merged polygon's sides as barriers, exactly as phase 5 does; oracle: pieces start at " +
			"path[0], end at path[last], join exactly, and an independent De Casteljau evaluation at 513 parameters per piece, at the extrema of x(t), y(t) and at 129 parameters around the closest approach to every corridor corner stays within 0.05 of the union of rectangles; " +
			"odd cases: polynomials built from chosen roots with coefficients expanded in 256-bit arithmetic and rounded once (three real roots, real + complex pair, double and triple roots, quadratics and " +
			"linears, leading coefficients in {0, +-0.5, +-0.99, +-1.01, +-2, +-10} x 1e-7 around the solver's epsilon, small roots (constant term far below epsilon), whole polynomials scaled down to a leading coefficient of 1..50 x 1e-7); oracle: every robustly real root (odd multiplicity) has a returned value within " +
			"max(1e-6, 1e3*eps*condition)*max(1,|root|), every returned value is within tolerance of a real root or has a backward error below 1e3*eps; " +
			"non-trivial = fit needed >= 2 pieces, or polynomial with a repeated root / tiny leading coefficient",
		MinNontrivial:    counts(4000, 60000),
		DeathIsViolation: true,
		Required:         []string{"fits", "multi_piece_fits", "poly:three-small-real", "poly:scaled-down", "poly:three-real", "poly:double-root", "poly:triple-root", "poly:tiny-cubic-coefficient", "poly:one-real+complex-pair"},
		Assumptions: []string{
			"well-formed corridors as in C19; only paths with >= 3 points are fitted (phase 5 does not call the fitter otherwise)",
			"double roots (tangency without sign change) are not demanded from the root finder, but what is returned near them must be a root",
			"for a leading coefficient |a| < 1e-7 the solver documents that the term is dropped: the tolerance is widened by the first-order effect 2|a||r|^3/|p'(r)| and the extra far-away root is not demanded",
		},
		Gen: func(seed int64, tier string, idx int) *core.Case {
			if idx%20 == 18 {
				return phase5Case("C20", seed, tier, idx)
			}
			if idx%2 == 0 {
				c := corridorCase("C20", seed, tier, idx)
				return c
			}
			r := rng("C20", seed, tier, idx)
			return &core.Case{Prop: "C20", Tier: tier, Seed: seed, Index: idx, Family: "polynomial", Poly: polyCase(r)}
		},
		Check: func(c *core.Case, wantSample bool) Result {
			if c.Poly != nil {
				r := checkSolve3(c.Poly)
				r.Nontrivial = c.Poly.Kind == "double-root" || c.Poly.Kind == "triple-root" || c.Poly.Kind == "tiny-cubic-coefficient" || c.Poly.Kind == "tiny-quadratic-coefficient"
				if wantSample && r.Verdict == Held {
					got, _ := callSolve3(c.Poly.Coeff)
					r.Sample = map[string]any{"index": c.Index, "polynomial": c.Poly, "returned_roots": got}
				}
				return r
			}
			if c.Corridor == nil {
				return judgeCaptured("C20", c, true)
			}
			co := c.Corridor
			if err := model.WellFormed(co.Rects, co.Start, co.End); err != nil {
				panic("generator produced a malformed corridor: " + err.Error())
			}
			path, p := callShortest(co)
			if p != nil {
				return skipped("C19")
			}
			if r, _, _ := checkShortest("C19", co, path); r.Verdict != Held {
				return skipped("C19")
			}
			if len(path) < 3 {
				r := held()
				r.stat("straight_paths_not_fitted", 1)
				return r
			}
			pieces, p := callFitSpline(path, co.Rects)
			if p != nil {
				return violated("C20/fit/panic/"+p.Func+"/"+p.Class, fmt.Sprintf("FitSpline panicked: %s in %s; corridor %v path %v\n%s", p.Msg, p.Func, co.Rects, path, p.Stack))
			}
			r := checkFit("C20", co, path, pieces)
			r.Nontrivial = len(pieces) >= 2
			r.stat("fits", 1)
			if wantSample && r.Verdict == Held {
				r.Sample = map[string]any{"index": c.Index, "corridor": co, "path": path, "pieces": pieces}
			}
			return r
		},
	})
}

// exitClass tells where a fitted curve that strays outside crosses the corridor boundary: "exits-at-vertex" when every
// crossing lies within 0.05 of a rectangle corner or of an end point of its own piece (the fitter deliberately ignores
// intersections that close to a barrier end point and at the ends of the parameter range), "crosses-side" when at least
// one crossing is in the open interior of a side, away from the ends of the piece.
func exitClass(rects [][4]float64, pieces [][4][2]float64) string {
	nearCorner := func(q [2]float64) bool {
		for _, r := range rects {
			for _, c := range [][2]float64{{r[0], r[1]}, {r[2], r[1]}, {r[0], r[3]}, {r[2], r[3]}} {
				if math.Hypot(q[0]-c[0], q[1]-c[1]) <= 0.05 {
					return true
				}
			}
		}
		return false
	}
	inside := func(q [2]float64) bool { return model.PointDist(rects, q) <= 1e-9 }
	crossings := 0
	for _, pc := range pieces {
		const n = 4096
		prevT, prevIn := 0.0, inside(model.Bezier(pc, 0))
		for k := 1; k <= n; k++ {
			t := float64(k) / n
			in := inside(model.Bezier(pc, t))
			if in != prevIn {
				// bisect the crossing parameter
				lo, hi := prevT, t
				for it := 0; it < 50; it++ {
					mid := (lo + hi) / 2
					if inside(model.Bezier(pc, mid)) == prevIn {
						lo = mid
					} else {
						hi = mid
					}
				}
				crossings++
				q := model.Bezier(pc, (lo+hi)/2)
				nearEnd := math.Hypot(q[0]-pc[0][0], q[1]-pc[0][1]) <= 0.05 || math.Hypot(q[0]-pc[3][0], q[1]-pc[3][1]) <= 0.05
				if !nearCorner(q) && !nearEnd {
					return "crosses-side"
				}
			}
			prevT, prevIn = t, in
		}
	}
	if crossings == 0 {
		return "crosses-side"
	}
	return "exits-at-vertex"
}
