// Package oracle holds one deterministic oracle per property plus the workload that feeds it.
package oracle

import (
	"crypto/sha256"
	"encoding/hex"
	"encoding/json"
	"fmt"
	"math/rand"
	"sort"

	"verifharness/core"
	"verifharness/gen"
)

const (
	Held     = "held"
	Violated = "violated"
	Skipped  = "skipped"
)

// Result is the verdict of one case.
type Result struct {
	Verdict    string         `json:"v"`
	Sig        string         `json:"sig,omitempty"`    // violation signature, or the reason of a skip
	Detail     string         `json:"detail,omitempty"` // human readable witness
	Nontrivial bool           `json:"nt,omitempty"`
	Hash       string         `json:"hash,omitempty"`  // canonical hash of the case (distinctness)
	Stats      map[string]int `json:"stats,omitempty"` // counters accumulated into the evidence file
	Notes      []string       `json:"notes,omitempty"` // NOTE lines (e.g. relational mismatch attributed to C07)
	Family     string         `json:"fam,omitempty"`
	Cell       string         `json:"cell,omitempty"`
	Sample     any            `json:"sample,omitempty"` // filled for the first few cases only
	Evals      int64          `json:"evals,omitempty"`
	ProcFrom   int            `json:"pf,omitempty"` // first case index executed by the worker process that produced this result (history for replays)
}

func (r *Result) stat(k string, n int) {
	if r.Stats == nil {
		r.Stats = map[string]int{}
	}
	r.Stats[k] += n
}

func held() Result { return Result{Verdict: Held} }

func skipped(reason string) Result { return Result{Verdict: Skipped, Sig: reason} }

func violated(sig, detail string) Result {
	if len(detail) > 4000 {
		detail = detail[:4000] + "…"
	}
	return Result{Verdict: Violated, Sig: sig, Detail: detail}
}

// Property is a registered check.
type Property struct {
	ID    string
	Title string
	// Count is the fixed number of cases per tier ("quick", "thorough").
	Count func(tier string) int
	// Gen builds case number idx. It must be a pure function of its arguments.
	Gen func(seed int64, tier string, idx int) *core.Case
	// Check runs the real code on the case and applies the oracle.
	Check func(c *core.Case, wantSample bool) Result
	// Rule documents generation and the non-triviality rule (evidence "rule").
	Rule string
	// Budget is the per-case time budget in seconds under load (confirmation uses 5x). 0 = default.
	Budget int
	// MinNontrivial is the minimum number of distinct non-trivial cases below which a run is inconclusive.
	MinNontrivial func(tier string) int
	// Required lists stats counters that must be non-zero for a conclusive run (trigger structures actually produced).
	Required []string
	// Assumptions are copied into the evidence file.
	Assumptions []string
	// DeathIsViolation: a worker that dies or hangs on a case violates this property (C01, C19, C20); for the other
	// properties such a case is skipped and left to C01.
	DeathIsViolation bool
	// CrossProcess > 0: the driver re-executes that fraction of the cases in a second set of fresh processes and compares
	// the digests the oracle left in Result.Detail ("digest:...") (C07).
	CrossProcess float64
	// Race: build the worker with the race detector.
	Race bool
	// Chunk overrides the number of cases handed to a worker at a time.
	Chunk int
}

var registry = map[string]*Property{}

func register(p *Property) { registry[p.ID] = p }

// Get returns the property with the given id.
func Get(id string) *Property { return registry[id] }

// IDs lists the registered property ids in order.
func IDs() []string {
	var ids []string
	for id := range registry {
		ids = append(ids, id)
	}
	sort.Strings(ids)
	return ids
}

// HashCase returns the canonical hash of what a case executes (independent of seed, tier and index).
func HashCase(c *core.Case) string {
	cp := *c
	cp.Seed, cp.Index, cp.Tier, cp.Note = 0, 0, "", ""
	b, _ := json.Marshal(cp)
	h := sha256.Sum256(b)
	return hex.EncodeToString(h[:12])
}

// HashString returns a short digest of s.
func HashString(s string) string {
	h := sha256.Sum256([]byte(s))
	return hex.EncodeToString(h[:12])
}

func propNum(id string) int64 {
	var n int64
	fmt.Sscanf(id, "C%d", &n)
	return n
}

func tierNum(t string) int64 {
	if t == "thorough" {
		return 2
	}
	return 1
}

// rng returns the generator of case idx.
func rng(prop string, seed int64, tier string, idx int) *rand.Rand {
	return rand.New(rand.NewSource(gen.Mix(seed, propNum(prop), tierNum(tier), int64(idx))))
}

func counts(quick, thorough int) func(string) int {
	return func(t string) int {
		if t == "thorough" {
			return thorough
		}
		return quick
	}
}
