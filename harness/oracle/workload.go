package oracle

import (
	"math"
	"math/rand"
	"sort"

	"verifharness/core"
)

// nodeIDs returns the distinct ids of an edge list in first-appearance order.
func nodeIDs(edges [][]string) []string {
	seen := map[string]bool{}
	var ids []string
	for _, e := range edges {
		for _, id := range e {
			if !seen[id] {
				seen[id] = true
				ids = append(ids, id)
			}
		}
	}
	return ids
}

func fptr(f float64) *float64 { return &f }
func uptr(u uint) *uint       { return &u }

// dyadic returns a multiple of 1/4 in [0, max].
func dyadic(r *rand.Rand, max float64) float64 {
	return float64(r.Intn(int(max*4)+1)) / 4
}

// decimal returns a value with one or two decimals in [0.01, max].
func decimal(r *rand.Rand, max float64) float64 {
	if r.Intn(2) == 0 {
		return float64(1+r.Intn(int(max*10))) / 10
	}
	return float64(1+r.Intn(int(max*100))) / 100
}

// sizeVal draws one width or height in the given regime. zeroP is the probability of an exact zero.
func sizeVal(r *rand.Rand, regime string, max float64, zeroP float64) float64 {
	if r.Float64() < zeroP {
		return 0
	}
	switch regime {
	case "integer":
		return float64(r.Intn(int(max) + 1))
	case "decimal":
		return decimal(r, max)
	default:
		return dyadic(r, max)
	}
}

func spacingVal(r *rand.Rand, regime string, allowZero bool) *float64 {
	for {
		switch r.Intn(5) {
		case 0:
			if allowZero {
				return fptr(0)
			}
		case 1: // small
			switch regime {
			case "integer":
				return fptr(float64(1 + r.Intn(5)))
			case "decimal":
				return fptr(decimal(r, 5))
			default:
				return fptr(0.25 + dyadic(r, 4))
			}
		case 2:
			return nil // default
		case 3: // large
			switch regime {
			case "integer":
				return fptr(float64(100 + r.Intn(400)))
			case "decimal":
				return fptr(100 + decimal(r, 400))
			default:
				return fptr(100 + dyadic(r, 400))
			}
		default: // medium
			switch regime {
			case "integer":
				return fptr(float64(5 + r.Intn(60)))
			case "decimal":
				return fptr(decimal(r, 60))
			default:
				return fptr(1 + dyadic(r, 60))
			}
		}
	}
}

// Size modes of the option grid.
const (
	sizeNone = iota
	sizeFixed
	sizeMapAll
	sizeMapSome
	sizeMapSomeFixed
	sizeMapNoMatch
	sizeZeros
	sizeModes
)

// applySizes fills the size part of o for the node ids of the case.
func applySizes(r *rand.Rand, o *core.Opts, ids []string, mode int, regime string, max float64) {
	zp := 0.08
	switch mode {
	case sizeNone:
	case sizeFixed:
		o.HasFixed, o.FixedW, o.FixedH = true, sizeVal(r, regime, max, 0.05), sizeVal(r, regime, max, 0.05)
	case sizeMapAll:
		o.Sizes = map[string][2]float64{}
		for _, id := range ids {
			o.Sizes[id] = [2]float64{sizeVal(r, regime, max, zp), sizeVal(r, regime, max, zp)}
		}
		if r.Intn(3) == 0 {
			o.HasFixed, o.FixedW, o.FixedH = true, sizeVal(r, regime, max, 0), sizeVal(r, regime, max, 0)
		}
	case sizeMapSome, sizeMapSomeFixed:
		o.Sizes = map[string][2]float64{}
		for _, id := range ids {
			if r.Intn(2) == 0 {
				o.Sizes[id] = [2]float64{sizeVal(r, regime, max, zp), sizeVal(r, regime, max, zp)}
			}
		}
		if mode == sizeMapSomeFixed {
			o.HasFixed, o.FixedW, o.FixedH = true, sizeVal(r, regime, max, 0), sizeVal(r, regime, max, 0)
		}
	case sizeMapNoMatch:
		o.Sizes = map[string][2]float64{"<nobody>": {sizeVal(r, regime, max, 0), sizeVal(r, regime, max, 0)}}
		if r.Intn(2) == 0 {
			o.HasFixed, o.FixedW, o.FixedH = true, sizeVal(r, regime, max, 0), sizeVal(r, regime, max, 0)
		}
	case sizeZeros:
		o.HasFixed, o.FixedW, o.FixedH = true, 0, 0
	}
}

// heteroSizes gives every node its own size (heterogeneous widths and heights), the workhorse of the geometric properties.
func heteroSizes(r *rand.Rand, o *core.Opts, ids []string, regime string, max float64, zeroP float64) {
	o.Sizes = map[string][2]float64{}
	for _, id := range ids {
		o.Sizes[id] = [2]float64{sizeVal(r, regime, max, zeroP), sizeVal(r, regime, max, zeroP)}
	}
}

func pickRegime(r *rand.Rand) string {
	if r.Intn(3) == 0 {
		return "decimal"
	}
	return "dyadic"
}

// cellFromIndex enumerates the 3 x 2 x 9 x 5 = 270 algorithm cells.
func cellFromIndex(k int) core.Opts {
	var o core.Opts
	k = ((k % 270) + 270) % 270
	o.Router = k % 5
	k /= 5
	o.Positioner = k % 9
	k /= 9
	o.Layerer = k % 2
	k /= 2
	o.Breaker = k % 3
	return o
}

func randomCell(r *rand.Rand) core.Opts {
	o := cellFromIndex(r.Intn(270))
	if o.Breaker == 2 && r.Intn(8) == 0 {
		o.RandomFlag = true // documented to concern the greedy breaker only
	}
	if r.Intn(10) == 0 {
		o.Monitor = true // a passive monitor must not change anything
	}
	if r.Intn(8) == 0 {
		// the thoroughness of the network simplex, also where no network simplex runs and also as the explicit default
		o.Thoroughness = uptr([]uint{28, 1, 3, 40}[r.Intn(4)])
	}
	if r.Intn(3) == 0 {
		o.Shuffle = 1 + r.Int63n(1<<40) // the options set independent fields: any order of the same options is the same call
	}
	return o
}

// sizeNoise fills, in one case of six that has a size map, the X and Y fields of about half of its entries with arbitrary
// values (what a caller passes who fills the map from an earlier layout). A size is a width and a height.
func sizeNoise(r *rand.Rand, o *core.Opts) {
	if len(o.Sizes) == 0 || r.Intn(6) != 0 {
		return
	}
	o.SizeXY = map[string][2]float64{}
	for _, id := range sortedKeys(o.Sizes) {
		if r.Intn(2) == 0 {
			o.SizeXY[id] = [2]float64{float64(r.Intn(2001)-1000) / 4, float64(r.Intn(2001)-1000) / 4}
		}
	}
}

// tolerance policy of DESIGN 1.5
type numeric struct {
	exact bool
	scale float64
}

func (n numeric) eq(a, b float64) bool {
	if a == b {
		return true
	}
	if n.exact {
		return false
	}
	return math.Abs(a-b) <= 1e-9*math.Max(1, n.scale)
}

// ge reports a >= b under the policy.
func (n numeric) ge(a, b float64) bool {
	if a >= b {
		return true
	}
	if n.exact {
		return false
	}
	return b-a <= 1e-9*math.Max(1, n.scale)
}

func sortedKeys[V any](m map[string]V) []string {
	ks := make([]string, 0, len(m))
	for k := range m {
		ks = append(ks, k)
	}
	sort.Strings(ks)
	return ks
}

// extremeScale multiplies, in about 3 % of the cases, every size and every spacing of o by one power of two far outside
// the usual range (2^-12 .. 2^16); before that, sizeNoise may fill the unused X,Y fields of the size map. Thresholds on magnitudes (a tolerance, a cut-off, an integer conversion) show only there.
// Multiplication by a power of two keeps dyadic inputs dyadic, so exact comparisons stay exact. The network simplex
// positioner is left alone: its x coordinates are layer numbers, so a huge width means a huge number of layers.
func extremeScale(r *rand.Rand, o *core.Opts) bool {
	sizeNoise(r, o)
	if o.Positioner == 3 || r.Intn(32) != 0 {
		return false
	}
	k := []int{-12, -8, 8, 12, 16}[r.Intn(5)]
	f := math.Ldexp(1, k)
	if o.HasFixed {
		o.FixedW *= f
		o.FixedH *= f
	}
	for id, s := range o.Sizes {
		o.Sizes[id] = [2]float64{s[0] * f, s[1] * f}
	}
	o.NodeSpacing = fptr(o.NodeSpacingValue() * f)
	o.LayerSpacing = fptr(o.LayerSpacingValue() * f)
	return true
}
