package oracle

import (
	"fmt"
	"runtime"
	"sync"
	"sync/atomic"

	"github.com/nulab/autog"

	"verifharness/core"
	"verifharness/gen"
)

func init() {
	register(&Property{
		ID:    "C15",
		Title: "Concurrent calls do not interfere",
		Count: counts(96, 960),
		Chunk: 3,
		Race:  true,
		Rule: "the worker is built with the race detector; every case is a batch: 8-24 independent inputs (general mixture, all cells; greedy-random runs without a seed hook, so it is time-seeded as in " +
			"production and only takes part in the race oracle), sequential reference results first (twice each; inputs whose references disagree are left out of the equality oracle), then k in {2, 8, 32, 64} goroutines " +
			"x GOMAXPROCS in {1, 2, 4, 16, 64} each issuing 3-6 calls on the inputs, no monitor, no hook installed; before the concurrent phase a quarter of the batches each makes no call, a monitored call that returns, a monitored call on the empty graph (panics), a monitored call on a malformed edge (panics); oracles: (1) zero race detector reports (GORACE log of every worker, de-duplicated by the " +
			"innermost autog frames), (2) every concurrent result equals its sequential reference byte for byte, (3) at the quiescent point the monitor globals are idle and the default options are unchanged (hook H4); " +
			"every 12th batch runs two graphs with two layers of 68-74 nodes (matrices of thousands of cells in the ordering phase); one batch in 240 (quick: 1, thorough: 4) starves 16 calls of about two seconds each on one processor (a result depending on elapsed time then differs from its reference); " +
			"non-trivial = a batch in which calls on different algorithm cells actually overlapped in time (measured with an in-flight counter)",
		MinNontrivial: counts(24, 240),
		Required:      []string{"overlapping_calls", "concurrent_calls", "equality_checks", "preamble:2", "preamble:3", "family:batch-mixed-sizes", "family:batch-wide-layers"},
		Budget:        600, // the race detector costs 5-15x; the budget only bounds a stuck worker (hangs are C01's business)
		Assumptions: []string{
			"the static enumeration of package-level variables named in the property's quantifier is a static analysis and is NOT done; the runtime substitute is the quiescent-state check of the globals plus the race detector over the executed paths",
			"the race detector reports races only on executed code under the interleavings that occurred; batches vary goroutine count and GOMAXPROCS to diversify them",
		},
		Gen: func(seed int64, tier string, idx int) *core.Case {
			r := rng("C15", seed, tier, idx)
			c := &core.Case{Prop: "C15", Tier: tier, Seed: seed, Index: idx, Family: "batch"}
			k := 8 + r.Intn(17)
			conc := &core.Conc{
				Goroutines: []int{2, 8, 32, 64}[r.Intn(4)],
				Procs:      []int{1, 2, 4, 16, 64}[r.Intn(5)],
				Rounds:     3 + r.Intn(4),
				Preamble:   r.Intn(4),
			}
			switch {
			case idx%12 == 5:
				// wide layers: the ordering phase works on matrices of thousands of cells (layer sizes 60-80), the regime in
				// which buffers get pooled or reused
				// more goroutines than processors: per-processor caches (sync.Pool) change hands at every preemption
				conc.Goroutines, conc.Rounds, conc.Procs = 4, 1, []int{1, 2, 2}[r.Intn(3)]
				conc.Preamble = 0
				for i := 0; i < 2; i++ {
					// two layers of 68-74 nodes (the giant component keeps more than 64 x 64 = 4096 cells): one such layout costs 10-25 s of CPU under the
					// race detector, so the batch is kept to two graphs, one reference run each and four concurrent calls on one or two processors
					g := gen.Wide(r, 2, 68, 74, 0.035)
					var o core.Opts
					o.Positioner, o.Router = 1, 4
					conc.Inputs = append(conc.Inputs, core.ConcInput{Edges: gen.Names(g), Opts: o})
				}
				c.Conc = conc
				c.Family = "batch-wide-layers"
				return c
			case idx%12 == 9:
				// small graphs next to large ones: most goroutines lay out trees of 150-220 nodes with mixed widths (deep recursion
				// and many passes in the positioners), a quarter of them loops over graphs of 4-8 nodes. State that is summed or
				// shared over all running calls (a process-wide depth or pass counter, a shared budget) hits the small calls
				conc.Goroutines, conc.Rounds, conc.Procs = 24, 2, []int{4, 16, 16}[r.Intn(3)]
				conc.Preamble = 0
				for i := 0; i < 12; i++ {
					var g gen.IG
					if i < 3 {
						g = gen.Tree(r, 150+r.Intn(71), r.Intn(2) == 0)
					} else {
						g = gen.DAG(r, 4+r.Intn(5), 0.5)
					}
					edges := gen.Names(g)
					var o core.Opts
					o.Positioner, o.Router = []int{0, 0, 1, 2}[r.Intn(4)], []int{4, 1, 0}[r.Intn(3)]
					heteroSizes(r, &o, nodeIDs(edges), "dyadic", 200, 0.05)
					conc.Inputs = append(conc.Inputs, core.ConcInput{Edges: edges, Opts: o})
				}
				c.Conc = conc
				c.Family = "batch-mixed-sizes"
				return c
			case idx%240 == 7:
				// CPU starvation: calls that take about two seconds alone under the race detector (network simplex positioner on a 110-130 node tree) are
				// run 16 at a time on one processor, so each takes 16x longer on the wall clock; a result that depends on
				// elapsed time (a time budget inside an algorithm) differs from its sequential reference
				conc.Goroutines, conc.Rounds, conc.Procs = 16, 1, 1
				conc.Preamble = 0
				for i := 0; i < 4; i++ {
					// trees: the ordering phase is trivial, practically all the time is spent in the pivot loop of the positioner
					g := gen.Tree(r, 110+r.Intn(21), r.Intn(2) == 0)
					var o core.Opts
					o.Positioner, o.Router = 3, 4
					o.HasFixed, o.FixedW, o.FixedH = true, 40, 20
					o.NodeSpacing = fptr(10)
					conc.Inputs = append(conc.Inputs, core.ConcInput{Edges: gen.Names(g), Opts: o})
				}
				c.Conc = conc
				c.Family = "batch-cpu-starved"
				return c
			}
			for i := 0; i < k; i++ {
				fam, edges := generalGraph(r, i, 10, false)
				_ = fam
				ids := nodeIDs(edges)
				o := fastCell(r, len(ids), false)
				if len(ids) > 12 && o.Positioner == 3 {
					o.Positioner = 0
				}
				regime := pickRegime(r)
				applySizes(r, &o, ids, r.Intn(sizeModes), regime, 60)
				o.NodeSpacing = spacingVal(r, regime, true)
				o.LayerSpacing = spacingVal(r, regime, true)
				o.Virtual = r.Intn(4) == 0
				capNS(&o)
				conc.Inputs = append(conc.Inputs, core.ConcInput{Edges: edges, Opts: o})
			}
			c.Conc = conc
			return c
		},
		Check: func(c *core.Case, wantSample bool) Result {
			cc := c.Conc
			fpBefore := autog.VerifDefaultsFingerprint()
			// sequential references (no hooks, exactly the code path of the concurrent calls)
			type ref struct {
				enc    string
				usable bool
			}
			refs := make([]ref, len(cc.Inputs))
			for i, in := range cc.Inputs {
				a := core.RunPlain(in.Edges, in.Opts)
				b := a
				if c.Family != "batch-wide-layers" {
					b = core.RunPlain(in.Edges, in.Opts)
				}
				switch {
				case a.Panic != nil || b.Panic != nil:
					refs[i] = ref{"", false}
				case in.Opts.Breaker == 1:
					refs[i] = ref{"", false} // explicitly non-deterministic option
				default:
					ea, eb := core.Canon(a.Layout), core.Canon(b.Layout)
					refs[i] = ref{ea, ea == eb}
				}
			}
			// history before the concurrent phase: the property is about calls without a monitor, but it has to hold after any
			// earlier history, in particular after a monitored call that ended in a panic
			switch cc.Preamble {
			case 1:
				core.RunPlain(cc.Inputs[0].Edges, cc.Inputs[0].Opts, autog.WithMonitor(&core.Recorder{}))
			case 2:
				core.RunPlain([][]string{}, cc.Inputs[0].Opts, autog.WithMonitor(&core.Recorder{}))
			case 3:
				core.RunPlain([][]string{{"a", "b"}, {"c"}}, cc.Inputs[0].Opts, autog.WithMonitor(&core.Recorder{}))
			}
			old := runtime.GOMAXPROCS(cc.Procs)
			defer runtime.GOMAXPROCS(old)
			var inflight, overlapped, calls, compared atomic.Int64
			var mu sync.Mutex
			var mismatch string
			cellsOverlap := map[string]bool{}
			var current sync.Map // goroutine -> cell of its running call
			var wg sync.WaitGroup
			start := make(chan struct{})
			for g := 0; g < cc.Goroutines; g++ {
				wg.Add(1)
				go func(g int) {
					defer wg.Done()
					<-start
					rounds := cc.Rounds
					if c.Family == "batch-mixed-sizes" && g%4 == 0 {
						rounds = cc.Rounds * 40
					}
					for round := 0; round < rounds; round++ {
						i := (g*7 + round*3) % len(cc.Inputs)
						if c.Family == "batch-mixed-sizes" {
							// inputs 0-2 are the large trees, the others are small
							if g%4 == 0 {
								i = 3 + (g/4+round)%(len(cc.Inputs)-3)
							} else {
								i = (g + round) % 3
							}
						}
						in := cc.Inputs[i]
						current.Store(g, in.Opts.Cell())
						n := inflight.Add(1)
						res := core.RunPlain(in.Edges, in.Opts)
						m := inflight.Add(-1)
						calls.Add(1)
						if n > 1 || m > 0 {
							overlapped.Add(1)
							mu.Lock()
							current.Range(func(k, v any) bool {
								if k.(int) != g {
									cellsOverlap[v.(string)] = true
								}
								return true
							})
							mu.Unlock()
						}
						current.Delete(g)
						if !refs[i].usable {
							continue
						}
						compared.Add(1)
						enc := ""
						if res.Panic != nil {
							enc = "PANIC " + res.Panic.Msg
						} else {
							enc = core.Canon(res.Layout)
						}
						if enc != refs[i].enc {
							mu.Lock()
							if mismatch == "" {
								mismatch = fmt.Sprintf("input %d (%s, edges %v) returned a different result under concurrency (%d goroutines, GOMAXPROCS %d):\n--- alone\n%s--- concurrent\n%s",
									i, in.Opts.Cell(), in.Edges, cc.Goroutines, cc.Procs, clip(refs[i].enc, 800), clip(enc, 800))
							}
							mu.Unlock()
						}
					}
				}(g)
			}
			close(start)
			wg.Wait()
			if mismatch != "" {
				return violated("C15/result-differs-under-concurrency", mismatch)
			}
			if !autog.VerifMonitorIdle() {
				return violated("C15/globals-not-idle", "after all concurrent calls returned the package-level monitor state is not idle although no monitor was supplied")
			}
			if fp := autog.VerifDefaultsFingerprint(); fp != fpBefore {
				return violated("C15/defaults-changed", fmt.Sprintf("the package-level default options changed during the batch:\nbefore %s\nafter  %s", fpBefore, fp))
			}
			r := held()
			r.Nontrivial = overlapped.Load() > 0 && len(cellsOverlap) >= 2
			r.stat("concurrent_calls", int(calls.Load()))
			r.stat("overlapping_calls", int(overlapped.Load()))
			r.stat("equality_checks", int(compared.Load()))
			r.stat(fmt.Sprintf("goroutines:%d", cc.Goroutines), 1)
			r.stat(fmt.Sprintf("gomaxprocs:%d", cc.Procs), 1)
			r.stat(fmt.Sprintf("preamble:%d", cc.Preamble), 1)
			r.stat("family:"+c.Family, 1)
			if wantSample {
				r.Sample = map[string]any{"index": c.Index, "goroutines": cc.Goroutines, "gomaxprocs": cc.Procs, "rounds": cc.Rounds, "inputs": len(cc.Inputs),
					"calls": calls.Load(), "overlapping_calls": overlapped.Load(), "first_input": cc.Inputs[0]}
			}
			return r
		},
	})
}
