package oracle

import (
	"fmt"
	"math/rand"

	"github.com/nulab/autog"

	"verifharness/core"
	"verifharness/gen"
)

// simplify removes self loops, parallel and antiparallel duplicates (C12 is stated for simple graphs).
func simplify(g gen.IG) gen.IG {
	seen := map[[2]int]bool{}
	var e [][2]int
	for _, x := range g.E {
		if x[0] == x[1] || seen[x] || seen[[2]int{x[1], x[0]}] {
			continue
		}
		seen[x] = true
		e = append(e, x)
	}
	if len(e) == 0 {
		e = append(e, [2]int{0, g.N - 1})
	}
	g.E = e
	return g
}

type segment struct {
	comp, band int
	xt, xb     float64
	edge       int
}

// drawingSegments splits every routed polyline into its per-band-pair segments. It returns nil and a skip result when the
// routes do not have one point per crossed band.
func drawingSegments(c *core.Case, v *view) ([]segment, *Result) {
	match := matchEdges(c.Edges, v.l)
	bi := v.bandIndex()
	var segs []segment
	for i, e := range c.Edges {
		if isSelfLoop(e) {
			continue
		}
		if match[i] < 0 {
			r := skipped("C02")
			return nil, &r
		}
		oe := v.l.Edges[match[i]]
		bf, bt := bi[e[0]], bi[e[1]]
		if bf == bt {
			r := skipped("C03")
			return nil, &r
		}
		top := min(bf, bt)
		span := max(bf, bt) - top
		if len(oe.Points) != span+1 {
			r := skipped("C06")
			return nil, &r
		}
		for k := 0; k < span; k++ {
			segs = append(segs, segment{v.comp[e[0]], top + k, oe.Points[k][0], oe.Points[k+1][0], i})
		}
	}
	return segs, nil
}

// countCrossingsByOrder counts the pairs of segments between the same two adjacent bands of the same component whose x-order
// at the upper band is strictly opposite to their x-order at the lower band (naive O(S^2) per band pair).
func countCrossingsByOrder(segs []segment) (int, [2]int) {
	groups := map[[2]int][]segment{}
	for _, s := range segs {
		k := [2]int{s.comp, s.band}
		groups[k] = append(groups[k], s)
	}
	total := 0
	witness := [2]int{-1, -1}
	for _, g := range groups {
		for i := 0; i < len(g); i++ {
			for j := i + 1; j < len(g); j++ {
				if (g[i].xt-g[j].xt)*(g[i].xb-g[j].xb) < 0 {
					total++
					witness = [2]int{g[i].edge, g[j].edge}
				}
			}
		}
	}
	return total, witness
}

func init() {
	register(&Property{
		ID:    "C12",
		Title: "Reported crossings = crossings of the drawing",
		Count: counts(10000, 120000),
		Rule: "simple graphs (no self loops, parallel or antiparallel edges) from F1, F7 (66-110 layers), F8 (layers of 6-30 nodes; every 200th case two adjacent layers of 65-70 nodes), F9, F11, unions with long edges (10 %; crossings between components are judged geometrically and must be 0) x {ns, lp} layering x size-aware positioners x polyline routing x " +
			"NodeSpacing > 0, LayerSpacing > 0; a recording monitor receives the phase-3 event \"crossings\" of every component; oracle: sum of reported counts == number of segment pairs between adjacent " +
			"bands with strictly opposite x-order at top and bottom, counted naively on the returned polylines (node centres and bends); " +
			"non-trivial = reported count > 0 and (>= 66 bands | a band with >= 9 nodes | a long edge)",
		MinNontrivial: counts(1500, 20000),
		Required:      []string{"crossing_events", "deep_graphs_over_64_layers", "wide_layers", "layers_over_64_nodes", "multi_component_inputs", "long_edges", "crossings_counted"},
		Gen: func(seed int64, tier string, idx int) *core.Case {
			r := rng("C12", seed, tier, idx)
			c := &core.Case{Prop: "C12", Tier: tier, Seed: seed, Index: idx}
			var g gen.IG
			switch k := r.Intn(20); {
			case idx%200 == 3:
				// two or three adjacent layers with more than 64 nodes each: positions beyond 63 in both layers
				g = gen.Wide(r, 2, 65, 70, 0.05)
				g.Family = "F8-wide-over-64"
			case k == 15 || k == 16:
				// several components, some with long edges: the drawing must not gain crossings between components
				var parts []gen.IG
				for n := 2 + r.Intn(2); n > 0; n-- {
					if r.Intn(3) == 0 {
						parts = append(parts, gen.DAG(r, 3+r.Intn(6), 0.4))
					} else {
						parts = append(parts, gen.Skip(r, 3+r.Intn(4), 1, 3, 0.4, 2+r.Intn(5), 2+r.Intn(3)))
					}
				}
				g, _ = gen.Union(r, parts)
				g.Family = "F5-union(long-edges)"
			case k == 0:
				g = gen.Deep(r, 66+r.Intn(45), 2+r.Intn(2), 0.2)
			case k <= 2:
				g = gen.Wide(r, 2+r.Intn(3), 6, 30, 0.12)
			case k <= 7:
				g = gen.Skip(r, 3+r.Intn(6), 2, 6, 0.3, 1+r.Intn(8), 2+r.Intn(4))
			case k <= 9:
				g = gen.Coincidence(r)
			case k <= 12:
				n := 12 + r.Intn(30)
				g = gen.DAG(r, n, (1.5+1.5*r.Float64())/float64(n))
			case k <= 14:
				n := 4 + r.Intn(14)
				g = gen.Digraph(r, n, n+r.Intn(n))
			default:
				g = gen.DAG(r, 4+r.Intn(10), 0.2+r.Float64()*0.4)
			}
			g = simplify(g)
			c.Family, c.Edges = g.Family, gen.Names(g)
			ids := nodeIDs(c.Edges)
			var o core.Opts
			o.Breaker = []int{0, 2}[r.Intn(2)]
			o.Layerer = r.Intn(2)
			o.Positioner = []int{0, 0, 1, 2, 3}[r.Intn(5)]
			if o.Positioner == 3 && len(ids) > 20 {
				o.Positioner = 0
			}
			o.Router = 0
			c.Regime = pickRegime(r)
			if o.Positioner == 3 {
				c.Regime = "integer"
			}
			heteroSizes(r, &o, ids, c.Regime, 60, 0.1)
			o.NodeSpacing = spacingVal(r, c.Regime, false)
			o.LayerSpacing = spacingVal(r, c.Regime, false)
			capNS(&o)
			c.Opts = o
			return c
		},
		Check: func(c *core.Case, wantSample bool) Result {
			rec := &core.Recorder{}
			res := core.Run(c.Edges, c.Opts, autog.WithMonitor(rec))
			if res.Panic != nil {
				return noReturn(res.Panic)
			}
			reported, events, interComp := 0, 0, 0
			for _, e := range rec.Events {
				if e.Phase == 3 && e.Key == "crossings" {
					n, ok := e.Val.(int)
					if !ok {
						return violated("C12/event-type", fmt.Sprintf("crossings event carries %T %v", e.Val, e.Val))
					}
					reported += n
					events++
				}
			}
			v := newView(c.Edges, c.Opts, res.Layout, c.Regime != "decimal")
			if !v.allPresent() {
				return skipped("C02")
			}
			segs, sk := drawingSegments(c, v)
			if sk != nil {
				return *sk
			}
			counted, w := countCrossingsByOrder(segs)
			// crossings between edges of different components are crossings of the drawing too; components need not share
			// a y grid, so these pairs are judged geometrically (proper intersection of the returned polyline segments)
			if v.ncomp > 1 {
				type gseg struct {
					a, b [2]float64
					comp int
					edge int
				}
				var gs []gseg
				match := matchEdges(c.Edges, v.l)
				for i, e := range c.Edges {
					if isSelfLoop(e) || match[i] < 0 {
						continue
					}
					p := v.l.Edges[match[i]].Points
					for k := 1; k < len(p); k++ {
						gs = append(gs, gseg{p[k-1], p[k], v.comp[e[0]], i})
					}
				}
				for i := 0; i < len(gs); i++ {
					for j := i + 1; j < len(gs); j++ {
						if gs[i].comp != gs[j].comp && properIntersect(gs[i].a, gs[i].b, gs[j].a, gs[j].b) {
							counted++
							w = [2]int{gs[i].edge, gs[j].edge}
							interComp++
						}
					}
				}
			}
			bands, widest, long := 0, 0, 0
			perBand := map[[2]int]int{}
			bi := v.bandIndex()
			for _, id := range v.ids {
				bands = max(bands, bi[id]+1)
				k := [2]int{v.comp[id], bi[id]}
				perBand[k]++
				widest = max(widest, perBand[k])
			}
			for _, e := range c.Edges {
				if d := bi[e[0]] - bi[e[1]]; d > 1 || d < -1 {
					long++
				}
			}
			if reported != counted {
				shape := "general"
				if bands > 64 {
					shape = "over-64-layers"
				}
				if widest > 64 {
					shape = "over-64-wide"
				}
				if interComp > 0 {
					shape = "between-components"
				}
				wit := ""
				if w[0] >= 0 {
					wit = fmt.Sprintf("; e.g. %v x %v", c.Edges[w[0]], c.Edges[w[1]])
				}
				return violated("C12/count-mismatch/"+shape+"/"+core.PositionerNames[c.Opts.Positioner], fmt.Sprintf("monitor reported %d crossings in %d events, the drawing has %d (bands=%d, widest band=%d, long edges=%d)%s",
					reported, events, counted, bands, widest, long, wit))
			}
			r := held()
			r.Nontrivial = reported > 0 && (bands >= 66 || widest >= 9 || long > 0)
			r.stat("crossing_events", events)
			r.stat("crossings_counted", counted)
			r.stat("long_edges", long)
			if bands > 64 {
				r.stat("deep_graphs_over_64_layers", 1)
			}
			if widest >= 9 {
				r.stat("wide_layers", 1)
			}
			if widest > 64 {
				r.stat("layers_over_64_nodes", 1)
			}
			if v.ncomp > 1 {
				r.stat("multi_component_inputs", 1)
			}
			if wantSample {
				r.Sample = layoutSample(c, res.Layout, map[string]any{"reported_crossings": reported, "counted_crossings": counted})
			}
			return r
		},
	})
}

// ---------------------------------------------------------------------------------------------------------------- C13

// parentVector decodes k into the k-th parent vector of a rooted tree on n nodes (p[i] in [0,i)); there are (n-1)! of them.
func parentVector(n, k int) []int {
	p := make([]int, n)
	for i := 1; i < n; i++ {
		p[i] = k % i
		k /= i
	}
	return p
}

func factorial(n int) int {
	f := 1
	for i := 2; i <= n; i++ {
		f *= i
	}
	return f
}

// exhaustiveTrees lists (n, k) for all parent vectors of trees with 2..maxN nodes.
func exhaustiveTreeCount(maxN int) int {
	t := 0
	for n := 2; n <= maxN; n++ {
		t += factorial(n - 1)
	}
	return t
}

func nthTree(maxN, idx int) (int, int) {
	for n := 2; n <= maxN; n++ {
		f := factorial(n - 1)
		if idx < f {
			return n, idx
		}
		idx -= f
	}
	return maxN, 0
}

func properIntersect(a1, a2, b1, b2 [2]float64) bool {
	// shared end points are not crossings
	if a1 == b1 || a1 == b2 || a2 == b1 || a2 == b2 {
		return false
	}
	o := func(p, q, r [2]float64) float64 { return (q[0]-p[0])*(r[1]-p[1]) - (q[1]-p[1])*(r[0]-p[0]) }
	d1, d2 := o(a1, a2, b1), o(a1, a2, b2)
	d3, d4 := o(b1, b2, a1), o(b1, b2, a2)
	return d1*d2 < 0 && d3*d4 < 0
}

func init() {
	const quickMaxN, thoroughMaxN = 7, 8
	ordersQuick, ordersThorough := 6, 12
	exQ := exhaustiveTreeCount(quickMaxN) * 2 * ordersQuick
	exT := exhaustiveTreeCount(thoroughMaxN) * 2 * ordersThorough
	register(&Property{
		ID:    "C13",
		Title: "Rooted trees are drawn planar",
		Count: counts(exQ+4000, exT+40000),
		Rule: fmt.Sprintf("exhaustive part: every parent vector of rooted trees with 2..%d nodes (quick; 2..%d thorough) x {out-tree, in-tree} x %d (%d) random edge orders and relabellings; random part: "+
			"trees with 8-200 nodes; x {ns, lp} layering x size-aware positioners x {polyline, straight}; oracle: zero segment pairs with opposite x-order between adjacent bands, and, where the tree is drawn "+
			"without helper nodes and with uniform node heights, zero proper geometric intersections of the returned segments; non-trivial = >= 2 internal nodes with >= 2 children", quickMaxN, thoroughMaxN, ordersQuick, ordersThorough),
		MinNontrivial: counts(3000, 40000),
		Required:      []string{"out_trees", "in_trees", "geometric_checks", "trees_with_helper_nodes"},
		Gen: func(seed int64, tier string, idx int) *core.Case {
			r := rng("C13", seed, tier, idx)
			c := &core.Case{Prop: "C13", Tier: tier, Seed: seed, Index: idx}
			maxN, orders, ex := quickMaxN, ordersQuick, exQ
			if tier == "thorough" {
				maxN, orders, ex = thoroughMaxN, ordersThorough, exT
			}
			var g gen.IG
			if idx < ex {
				t := idx / (2 * orders)
				out := (idx/orders)%2 == 0
				n, k := nthTree(maxN, t)
				g = gen.TreeFromParents(r, parentVector(n, k), out)
				g.Family += "-exhaustive"
			} else {
				n := 8 + r.Intn(40)
				if r.Intn(10) == 0 {
					n = 50 + r.Intn(150)
				}
				g = gen.Tree(r, n, r.Intn(2) == 0)
			}
			c.Family, c.Edges = g.Family, gen.Names(g)
			ids := nodeIDs(c.Edges)
			var o core.Opts
			o.Breaker = []int{0, 2}[r.Intn(2)]
			o.Layerer = []int{0, 0, 1}[r.Intn(3)]
			o.Positioner = []int{0, 0, 1, 2, 3}[r.Intn(5)]
			if o.Positioner == 3 && len(ids) > 40 {
				o.Positioner = 0
			}
			o.Router = []int{0, 0, 1}[r.Intn(3)]
			c.Regime = "dyadic"
			if o.Positioner == 3 {
				c.Regime = "integer"
			}
			switch r.Intn(3) {
			case 0: // no sizes
			case 1:
				o.HasFixed, o.FixedW, o.FixedH = true, sizeVal(r, c.Regime, 40, 0), sizeVal(r, c.Regime, 40, 0)
			default:
				heteroSizes(r, &o, ids, c.Regime, 40, 0.05)
			}
			o.NodeSpacing = spacingVal(r, c.Regime, false)
			o.LayerSpacing = spacingVal(r, c.Regime, false)
			capNS(&o)
			c.Opts = o
			return c
		},
		Check: func(c *core.Case, wantSample bool) Result {
			res := core.Run(c.Edges, c.Opts)
			if res.Panic != nil {
				return noReturn(res.Panic)
			}
			v := newView(c.Edges, c.Opts, res.Layout, true)
			if !v.allPresent() {
				return skipped("C02")
			}
			bi := v.bandIndex()
			long := 0
			for _, e := range c.Edges {
				if d := bi[e[0]] - bi[e[1]]; d > 1 || d < -1 {
					long++
				}
			}
			r := held()
			match := matchEdges(c.Edges, v.l)
			if c.Opts.Router == 1 && long > 0 {
				// a straight route of a long edge cannot be judged band by band
				return skipped("straight-long-edge")
			}
			segs, sk := drawingSegments(c, v)
			if sk != nil {
				return *sk
			}
			if n, w := countCrossingsByOrder(segs); n > 0 {
				return violated("C13/crossing/"+core.LayererNames[c.Opts.Layerer], fmt.Sprintf("the tree is drawn with %d crossings, e.g. %v x %v", n, c.Edges[w[0]], c.Edges[w[1]]))
			}
			// geometric test where both definitions coincide: no helper nodes (all edges span one band) and uniform node heights
			if long == 0 && c.Opts.Sizes == nil {
				type sg struct {
					a, b [2]float64
					e    int
				}
				var ss []sg
				for i := range c.Edges {
					if match[i] < 0 {
						return skipped("C02")
					}
					p := v.l.Edges[match[i]].Points
					for k := 1; k < len(p); k++ {
						ss = append(ss, sg{p[k-1], p[k], i})
					}
				}
				for i := 0; i < len(ss); i++ {
					for j := i + 1; j < len(ss); j++ {
						if ss[i].e != ss[j].e && properIntersect(ss[i].a, ss[i].b, ss[j].a, ss[j].b) {
							return violated("C13/geometric-crossing/"+core.LayererNames[c.Opts.Layerer], fmt.Sprintf("segments %v-%v of %v and %v-%v of %v intersect",
								ss[i].a, ss[i].b, c.Edges[ss[i].e], ss[j].a, ss[j].b, c.Edges[ss[j].e]))
						}
					}
				}
				r.stat("geometric_checks", 1)
			}
			// non-triviality: internal nodes with >= 2 children
			deg := map[string]int{}
			out := contains(c.Family, "outtree")
			for _, e := range c.Edges {
				if out {
					deg[e[0]]++
				} else {
					deg[e[1]]++
				}
			}
			branching := 0
			for _, d := range deg {
				if d >= 2 {
					branching++
				}
			}
			r.Nontrivial = branching >= 2
			if out {
				r.stat("out_trees", 1)
			} else {
				r.stat("in_trees", 1)
			}
			if long > 0 {
				r.stat("trees_with_helper_nodes", 1)
			}
			if wantSample {
				r.Sample = layoutSample(c, res.Layout, map[string]any{"long_edges": long})
			}
			return r
		},
	})
}

var _ = rand.Intn
