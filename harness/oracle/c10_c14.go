package oracle

import (
	"fmt"
	"math"
	"math/rand"
	"sort"

	"verifharness/core"
	"verifharness/gen"
	"verifharness/model"
)

// drawnGraph is the input with every edge oriented as it is drawn (flipped iff ArrowHeadStart), self loops dropped,
// plus the layer number of every node derived from Y.
type drawnGraph struct {
	ids     []string
	idx     map[string]int
	es      []model.DEdge
	flagged []bool // per es entry: drawn reversed
	orig    [][2]string
	layer   []int
	comp    []int
	ncomp   int
}

func buildDrawn(c *core.Case, v *view) (*drawnGraph, *Result) {
	d := &drawnGraph{ids: v.ids, idx: map[string]int{}}
	for i, id := range v.ids {
		d.idx[id] = i
	}
	match := matchEdges(c.Edges, v.l)
	for i, e := range c.Edges {
		if isSelfLoop(e) {
			continue
		}
		if match[i] < 0 {
			r := skipped("C02")
			return nil, &r
		}
		a, b := d.idx[e[0]], d.idx[e[1]]
		fl := v.l.Edges[match[i]].ArrowHeadStart
		if fl {
			a, b = b, a
		}
		d.es = append(d.es, model.DEdge{From: a, To: b})
		d.flagged = append(d.flagged, fl)
		d.orig = append(d.orig, [2]string{e[0], e[1]})
	}
	gb, _ := v.globalBandIndex()
	d.layer = make([]int, len(v.ids))
	d.comp = make([]int, len(v.ids))
	for i, id := range v.ids {
		d.layer[i] = gb[id]
		d.comp[i] = v.comp[id]
	}
	d.ncomp = v.ncomp
	return d, nil
}

// layeringCase builds the workload shared by C10 and C11: uniform node heights, positive layer spacing, helper nodes in the
// output, so that the rank of a node's Y among all returned Ys is its layer number.
func layeringCase(prop string, seed int64, tier string, idx int, layerer int) *core.Case {
	r := rng(prop, seed, tier, idx)
	c := &core.Case{Prop: prop, Tier: tier, Seed: seed, Index: idx}
	switch r.Intn(10) {
	case 0:
		g := gen.Coincidence(r)
		c.Family, c.Edges = g.Family, gen.Names(g)
	case 6:
		g := gen.Slack(r)
		if layerer == 0 && r.Intn(3) == 0 {
			g = gen.Hub(r) // aimed at the pivot rule of the network simplex; pointless (and slow) with longest-path layering
		}
		c.Family, c.Edges = g.Family, gen.Names(g)
	case 1, 2:
		g := gen.Skip(r, 3+r.Intn(6), 1, 5, 0.35, 1+r.Intn(8), 2+r.Intn(5))
		c.Family, c.Edges = g.Family, gen.Names(g)
	case 3:
		n := 20 + r.Intn(60)
		g := gen.Connect(r, gen.DAG(r, n, (1.2+r.Float64())/float64(n)), true)
		c.Family, c.Edges = g.Family, gen.Names(g)
	case 4:
		n := 5 + r.Intn(20)
		g := gen.Connect(r, gen.Digraph(r, n, n+r.Intn(n)), false)
		c.Family, c.Edges = g.Family, gen.Names(g)
	case 5:
		g := gen.Multi(r, gen.DAG(r, 4+r.Intn(10), 0.3), 0.3, 0.15)
		c.Family, c.Edges = g.Family, gen.Names(g)
	case 7:
		// component sizes that are perfect squares (the budget is thoroughness * int(sqrt(|V|))), dense enough to need pivots
		n := []int{4, 9, 9, 16, 16, 25}[r.Intn(6)]
		g := gen.Connect(r, gen.DAG(r, n, (2.5+2*r.Float64())/float64(n)), true)
		g.Family = "F1-dag-square"
		c.Family, c.Edges = g.Family, gen.Names(g)
	default:
		c.Family, c.Edges = smallGraph(r)
	}
	if layerer == 1 && idx%1000 == 777 {
		// every configuration, whatever the depth of the graph: a path of more than 1024 nodes (recursion depth, layer count)
		g := gen.DeepPath(r, 0)
		c.Family, c.Edges = g.Family, gen.Names(g)
	}
	var o core.Opts
	o.Breaker = r.Intn(3)
	if o.Breaker == 1 {
		o.GreedySeed = r.Int63()
	}
	o.Layerer = layerer
	o.Positioner = 1 // valign: cheap
	if layerer == 1 {
		// "every configuration with LayeringLongestPath": other positioners, options that concern other algorithms
		// (the thoroughness of the network simplex), explicit defaults and any order of the options
		o.Positioner = []int{1, 1, 1, 0, 2, 4}[r.Intn(6)]
		if r.Intn(4) == 0 {
			o.Thoroughness = uptr([]uint{28, 1, 5, 100}[r.Intn(4)])
		}
		o.Explicit = r.Intn(4) == 0
		if r.Intn(2) == 0 {
			o.Shuffle = 1 + r.Int63n(1<<40)
		}
	}
	o.Router = 4 // noop
	o.Virtual = true
	switch r.Intn(3) {
	case 0:
	case 1:
		o.HasFixed, o.FixedW, o.FixedH = true, dyadic(r, 40), dyadic(r, 40)
	default:
		o.HasFixed, o.FixedW, o.FixedH = true, 1, 1
	}
	o.LayerSpacing = []*float64{fptr(1), nil, fptr(0.25 + dyadic(r, 50))}[r.Intn(3)]
	c.Regime = "dyadic"
	if layerer == 0 {
		switch r.Intn(6) {
		case 0:
			o.Thoroughness = uptr(1)
		case 1:
			o.Thoroughness = uptr(7)
		case 2:
			o.Thoroughness = uptr(100)
		case 3:
			o.Thoroughness = uptr(uint(2 + r.Intn(3)))
		}
	}
	c.Opts = o
	return c
}

func init() {
	register(&Property{
		ID:    "C10",
		Title: "Network-simplex layering is optimal",
		Count: counts(20000, 250000),
		Rule: "graphs from F1-F5, F9, F11 (connected and unions, 5-80 nodes) x {greedy, greedy-random, dfs} x thoroughness {default 28, 1, 7, 100}; uniform node heights, LayerSpacing > 0 and " +
			"helper nodes in the output make the rank of Y the layer number; oracle: total span of the drawn orientation is optimal iff a flow on tight edges with net inflow indeg-outdeg exists " +
			"(one Dinic max-flow per case; cross-checked against brute force for <= 7 nodes inside the run); real nodes of a component occupy contiguous layers; runs that ended on the documented " +
			"iteration cap (hook H2) are counted and not judged; non-trivial = the initial longest-path-from-sources layering is not optimal (at least one pivot was needed)",
		MinNontrivial: counts(2500, 30000),
		Required:      []string{"judged", "brute_force_cross_checks", "pivots_observed", "multi_component_inputs", "cyclic_inputs"},
		Assumptions: []string{
			"every edge has weight 1 and minimum length 1 (the only values the public API can produce)",
			"runs whose pivot loop hit maxitr = thoroughness*int(sqrt(|V|)) with a negative cut value left are excluded, as the property states",
		},
		Gen: func(seed int64, tier string, idx int) *core.Case { return layeringCase("C10", seed, tier, idx, 0) },
		Check: func(c *core.Case, wantSample bool) Result {
			res := core.Run(c.Edges, c.Opts)
			if res.Panic != nil {
				return noReturn(res.Panic)
			}
			v := newView(c.Edges, c.Opts, res.Layout, true)
			if !v.allPresent() {
				return skipped("C02")
			}
			d, sk := buildDrawn(c, v)
			if sk != nil {
				return *sk
			}
			// the documented pivot budget is thoroughness * int(sqrt(|V|)) per component (README / option docs); it is computed
			// here from the case, not taken from the library, so that a run that stopped short of it is judged
			thor := 28
			if c.Opts.Thoroughness != nil {
				thor = int(*c.Opts.Thoroughness)
			}
			capped, pivots := false, 0
			for _, ns := range res.NS {
				if ns.Balance == 1 {
					pivots += ns.Iters
					if ns.NegLeft && ns.Iters >= thor*int(math.Sqrt(float64(ns.Nodes))) {
						capped = true
					}
				}
			}
			total, feasible := model.TotalSpan(d.es, d.layer)
			if !feasible {
				return skipped("C03")
			}
			f := inputFacts(c.Edges)
			r := held()
			if capped {
				r = skipped("iteration-cap")
				r.stat("capped_runs", 1)
				return r
			}
			n := len(d.ids)
			opt := model.OptimalLayering(n, d.es, d.layer)
			if n <= 7 {
				brute := model.BruteMinSpan(n, d.es)
				if (brute == total) != opt {
					panic(fmt.Sprintf("certificate and brute force disagree: certificate optimal=%v total=%d brute=%d edges=%v layers=%v", opt, total, brute, d.es, d.layer))
				}
				r.stat("brute_force_cross_checks", 1)
			}
			if !opt {
				exit := "optimal-claimed"
				for _, ns := range res.NS {
					if ns.Balance == 1 && ns.NegLeft {
						exit = "no-entering-edge"
					}
				}
				return withFacts(violated("C10/suboptimal/"+exit, fmt.Sprintf("total span %d is not minimal for the drawn orientation (no dual flow on tight edges); layers %v; ns runs %+v",
					total, layerMap(d), res.NS)), f)
			}
			// contiguity of real nodes per component
			for ci := 0; ci < d.ncomp; ci++ {
				used := map[int]bool{}
				lo, hi := 1<<30, -1
				for i := range d.ids {
					if d.comp[i] == ci {
						used[d.layer[i]] = true
						lo, hi = min(lo, d.layer[i]), max(hi, d.layer[i])
					}
				}
				for l := lo; l <= hi; l++ {
					if !used[l] {
						return withFacts(violated("C10/empty-band", fmt.Sprintf("component %d uses layers %d..%d but has no real node in layer %d; layers %v", ci, lo, hi, l, layerMap(d))), f)
					}
				}
			}
			// non-triviality: was a pivot needed?
			init := model.LongestFromSource(n, d.es)
			r.Nontrivial = !model.OptimalLayering(n, d.es, init)
			r.stat("judged", 1)
			r.stat("pivots_observed", pivots)
			if f.components > 1 {
				r.stat("multi_component_inputs", 1)
			}
			if f.cyclic {
				r.stat("cyclic_inputs", 1)
			}
			if wantSample {
				r.Sample = layoutSample(c, res.Layout, map[string]any{"total_span": total, "layers": layerMap(d), "ns": res.NS})
			}
			return r
		},
	})

	register(&Property{
		ID:    "C11",
		Title: "Longest-path layering is minimal-height",
		Count: counts(20000, 250000),
		Rule: "same workload as C10 with LongestPath layering; oracle: per component the number of layers equals the number of nodes on the longest drawn path, and every node sits exactly " +
			"longest-path-to-a-sink layers above the component's bottom layer (independent iterative DP); non-trivial = longest path has >= 4 nodes and some node is not on a longest path",
		MinNontrivial: counts(4000, 50000),
		Required:      []string{"multi_component_inputs", "cyclic_inputs"},
		Gen:           func(seed int64, tier string, idx int) *core.Case { return layeringCase("C11", seed, tier, idx, 1) },
		Check: func(c *core.Case, wantSample bool) Result {
			res := core.Run(c.Edges, c.Opts)
			if res.Panic != nil {
				return noReturn(res.Panic)
			}
			v := newView(c.Edges, c.Opts, res.Layout, true)
			if !v.allPresent() {
				return skipped("C02")
			}
			d, sk := buildDrawn(c, v)
			if sk != nil {
				return *sk
			}
			n := len(d.ids)
			if !model.Acyclic(n, d.es) {
				return skipped("C03")
			}
			f := inputFacts(c.Edges)
			toSink := model.LongestToSink(n, d.es)
			fromSrc := model.LongestFromSource(n, d.es)
			nt := false
			for ci := 0; ci < d.ncomp; ci++ {
				lo, hi, longest := 1<<30, -1, 0
				for i := range d.ids {
					if d.comp[i] == ci {
						lo, hi = min(lo, d.layer[i]), max(hi, d.layer[i])
						longest = max(longest, toSink[i])
					}
				}
				if hi-lo != longest {
					return withFacts(violated("C11/layer-count", fmt.Sprintf("component %d uses %d layers but its longest drawn path has %d nodes; layers %v", ci, hi-lo+1, longest+1, layerMap(d))), f)
				}
				for i := range d.ids {
					if d.comp[i] != ci {
						continue
					}
					if hi-d.layer[i] != toSink[i] {
						return withFacts(violated("C11/node-height", fmt.Sprintf("node %s sits %d layers above the bottom layer of its component, its longest path to a sink has %d edges; layers %v",
							d.ids[i], hi-d.layer[i], toSink[i], layerMap(d))), f)
					}
					if longest >= 3 && toSink[i]+fromSrc[i] < longest {
						nt = true
					}
				}
			}
			r := held()
			r.Nontrivial = nt
			if f.components > 1 {
				r.stat("multi_component_inputs", 1)
			}
			if f.cyclic {
				r.stat("cyclic_inputs", 1)
			}
			if wantSample {
				r.Sample = layoutSample(c, res.Layout, map[string]any{"layers": layerMap(d)})
			}
			return r
		},
	})

	register(&Property{
		ID:    "C14",
		Title: "DFS breaker reverses an irredundant set",
		Count: counts(20000, 250000),
		Rule: "cyclic multigraphs (F2-F4, F11 hub/ring) with the depth-first breaker: every edge drawn reversed (ArrowHeadStart) must close a directed cycle among the edges as drawn when it alone " +
			"is un-reversed (one independent acyclicity test per flagged edge); acyclic multigraphs (F1, F3 over DAGs, trees) with greedy, greedy-random and depth-first: no flagged edge at all; " +
			"non-trivial = >= 2 flagged edges (minimality part) or an acyclic multigraph with a parallel edge (no-reversal part)",
		MinNontrivial: counts(4000, 50000),
		Required:      []string{"flagged_edges", "acyclic_inputs", "cyclic_inputs_dfs", "acyclic_multigraphs"},
		Gen: func(seed int64, tier string, idx int) *core.Case {
			r := rng("C14", seed, tier, idx)
			c := &core.Case{Prop: "C14", Tier: tier, Seed: seed, Index: idx}
			var o core.Opts
			if idx%2 == 0 {
				// minimality on cyclic inputs
				switch r.Intn(5) {
				case 0:
					g := gen.Coincidence(r)
					c.Family, c.Edges = g.Family, gen.Names(g)
				case 1:
					n := 3 + r.Intn(12)
					g := gen.SelfLoops(r, gen.Multi(r, gen.Digraph(r, n, n+r.Intn(2*n)), 0.25, 0.25), r.Intn(3))
					c.Family, c.Edges = g.Family, gen.Names(g)
				case 2:
					n := 10 + r.Intn(30)
					g := gen.Digraph(r, n, n+r.Intn(n))
					c.Family, c.Edges = g.Family, gen.Names(g)
				default:
					n := 3 + r.Intn(10)
					g := gen.Digraph(r, n, 2+r.Intn(3*n))
					c.Family, c.Edges = g.Family, gen.Names(g)
				}
				o.Breaker = 2
				// the option that makes the *greedy* breaker random must not affect the depth-first breaker
				o.RandomFlag = r.Intn(4) == 0
				o.Explicit = r.Intn(2) == 0
			} else {
				// no reversal on acyclic inputs
				switch r.Intn(5) {
				case 4:
					// several tiny components (2-3 nodes) with self loops anywhere in the edge list, also in front: shortcuts for
					// small components, node order fixed by a self loop. Self loops are not edges of any other cycle; with the
					// depth-first breaker a reversed edge next to them is redundant like any other
					var parts []gen.IG
					for k := 2 + r.Intn(3); k > 0; k-- {
						parts = append(parts, gen.Multi(r, gen.DAG(r, 2+r.Intn(2), 0.7), 0.3, 0))
					}
					g, _ := gen.Union(r, parts)
					g = gen.SelfLoops(r, g, 1+r.Intn(3))
					g.Family = "F4-selfloops(tiny-acyclic-union)"
					c.Family, c.Edges = g.Family, gen.Names(g)
				case 0:
					g := gen.Tree(r, 2+r.Intn(20), r.Intn(2) == 0)
					c.Family, c.Edges = g.Family, gen.Names(g)
				case 1:
					g := gen.Multi(r, gen.DAG(r, 2+r.Intn(12), 0.35), 0.4, 0)
					g.Family = "F3-multi-acyclic"
					c.Family, c.Edges = g.Family, gen.Names(g)
				default:
					n := 2 + r.Intn(25)
					g := gen.DAG(r, n, (1+3*r.Float64())/float64(n))
					c.Family, c.Edges = g.Family, gen.Names(g)
				}
				o.Breaker = r.Intn(3)
				if o.Breaker == 1 {
					o.GreedySeed = r.Int63()
				}
			}
			o.Layerer = r.Intn(2)
			o.Positioner = 1
			o.Router = []int{4, 1, 0}[r.Intn(3)]
			if idx%1000 == 500 || idx%1000 == 501 {
				// a path of more than 1024 nodes (thresholds on the depth of the walk), with 1-3 cycles in the even cases
				back := 0
				if idx%2 == 0 {
					back = 1 + r.Intn(3)
				}
				g := gen.DeepPath(r, back)
				c.Family, c.Edges = g.Family, gen.Names(g)
				o.Layerer, o.Router = 1, 4
			}
			if r.Intn(2) == 0 {
				o.Shuffle = 1 + r.Int63n(1<<40)
			}
			c.Opts = o
			if r.Intn(4) == 0 {
				// node names are opaque: a quarter of the cases uses names whose concatenations collide
				c.Edges = renameEdges(c.Edges, ambiguousNames(r, nodeIDs(c.Edges)))
				c.Family += "+ambiguous-names"
			}
			return c
		},
		Check: func(c *core.Case, wantSample bool) Result {
			preamble := c.Index%3 == 0 && len(c.Edges) < 200
			if preamble {
				// the property holds after any history of calls: a third of the cases is preceded by a call on the same edge list
				// with the other cycle breaker (anything remembered per input across calls must not leak into this call)
				po := c.Opts
				po.Breaker = 2 - 2*(c.Opts.Breaker/2)
				po.RandomFlag = false
				core.Run(c.Edges, po)
			}
			res := core.Run(c.Edges, c.Opts)
			if res.Panic != nil {
				return noReturn(res.Panic)
			}
			v := newView(c.Edges, c.Opts, res.Layout, true)
			if !v.allPresent() {
				return skipped("C02")
			}
			d, sk := buildDrawn(c, v)
			if sk != nil {
				return *sk
			}
			n := len(d.ids)
			f := inputFacts(c.Edges)
			flagged := 0
			for _, fl := range d.flagged {
				if fl {
					flagged++
				}
			}
			r := held()
			if !f.cyclic && f.selfLoops > 0 && c.Opts.Breaker != 2 {
				// strictly, an input with a self loop is not acyclic, and the greedy breaker promises no minimality
				r.stat("self_loops_with_greedy_not_judged", 1)
			} else if !f.cyclic {
				if flagged > 0 {
					var which []string
					for i, fl := range d.flagged {
						if fl {
							which = append(which, d.orig[i][0]+"->"+d.orig[i][1])
						}
					}
					return withFacts(violated("C14/reversal-in-dag/"+core.BreakerNames[c.Opts.Breaker], fmt.Sprintf("the input is acyclic but %d edges are drawn reversed: %v", flagged, which)), f)
				}
				r.stat("acyclic_inputs", 1)
				if f.parallelPairs > 0 {
					r.stat("acyclic_multigraphs", 1)
					r.Nontrivial = true
				}
			} else if c.Opts.Breaker == 2 {
				if !model.Acyclic(n, d.es) {
					return skipped("C03")
				}
				for i, fl := range d.flagged {
					if !fl {
						continue
					}
					es := append([]model.DEdge{}, d.es...)
					es[i] = model.DEdge{From: d.es[i].To, To: d.es[i].From}
					if model.Acyclic(n, es) {
						return withFacts(violated("C14/redundant-reversal", fmt.Sprintf("edge %s->%s is drawn reversed, but drawing it forward leaves the drawing acyclic (%d edges reversed in total)",
							d.orig[i][0], d.orig[i][1], flagged)), f)
					}
				}
				r.stat("cyclic_inputs_dfs", 1)
				r.stat("flagged_edges", flagged)
				r.Nontrivial = flagged >= 2
			}
			if preamble {
				r.stat("preceded_by_call_with_other_breaker", 1)
			}
			if wantSample {
				r.Sample = layoutSample(c, res.Layout, map[string]any{"flagged_edges": flagged})
			}
			return r
		},
	})
}

func withFacts(r Result, f facts) Result {
	return r
}

func layerMap(d *drawnGraph) string {
	type kv struct {
		id string
		l  int
	}
	var kvs []kv
	for i, id := range d.ids {
		kvs = append(kvs, kv{id, d.layer[i]})
	}
	sort.Slice(kvs, func(i, j int) bool {
		if kvs[i].l != kvs[j].l {
			return kvs[i].l < kvs[j].l
		}
		return kvs[i].id < kvs[j].id
	})
	s := ""
	for _, x := range kvs {
		s += fmt.Sprintf("%s:%d ", x.id, x.l)
	}
	return s
}

var _ = rand.Intn
