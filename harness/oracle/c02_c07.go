package oracle

import (
	"fmt"
	"maps"
	"math"
	"math/rand"
	"reflect"
	"runtime"
	"sort"
	"sync"
	"sync/atomic"
	"time"

	"github.com/nulab/autog/graph"

	"verifharness/core"
	"verifharness/gen"
)

// smallGraph draws a graph for the structural properties: mostly <= 16 nodes (bugs of this code base show on small inputs and
// small inputs keep 10^4-10^5 executions affordable), some up to 40.
func smallGraph(r *rand.Rand) (string, [][]string) {
	maxN := 12
	switch r.Intn(6) {
	case 0:
		maxN = 40
	case 1:
		maxN = 20
	case 2:
		maxN = 6
	}
	if r.Intn(50) == 0 {
		return gen.CorpusGraph(r.Intn(len(gen.Corpus)))
	}
	g := gen.Mixed(r, maxN)
	return g.Family, gen.Names(g)
}

// fastCell draws an algorithm cell avoiding the slow network simplex positioner unless the graph is small.
func fastCell(r *rand.Rand, nodes int, deterministic bool) core.Opts {
	for {
		o := randomCell(r)
		if o.Positioner == 3 && nodes > 16 {
			continue
		}
		if deterministic && o.Breaker == 1 {
			o.Breaker = 0
		}
		if o.Breaker == 1 {
			o.GreedySeed = r.Int63()
		}
		return o
	}
}

func capNS(o *core.Opts) {
	// the network simplex positioner turns x coordinates into layer numbers: keep sizes and spacing small for it
	if o.Positioner != 3 {
		return
	}
	if o.NodeSpacing == nil || *o.NodeSpacing > 32 {
		o.NodeSpacing = fptr(8)
	}
	for k, v := range o.Sizes {
		o.Sizes[k] = [2]float64{math.Min(v[0], 48), v[1]}
	}
	if o.FixedW > 48 {
		o.FixedW = 48
	}
}

// ---------------------------------------------------------------------------------------------------------------- C02

func init() {
	register(&Property{
		ID:    "C02",
		Title: "Output graph = input graph",
		Count: counts(20000, 300000),
		Rule: "graphs from F1-F5, F9, F11 (multigraphs, self loops, unions) x random algorithm cell x all size modes (none, fixed, map all, map some +- fixed, " +
			"map matching nobody, zeros) x virtual output off/on; some ids are taken from the helper alphabets (V<n>); " +
			"non-trivial = the input forces a temporary edit to be undone: cycle, self loop, >= 2 components, or more edges than nodes-1 (long edges likely)",
		MinNontrivial: counts(6000, 80000),
		Required:      []string{"virtual_on", "size_map_partial", "inputs_with_self_loops", "cyclic_inputs", "multigraph_inputs", "helper_nodes_seen"},
		Gen: func(seed int64, tier string, idx int) *core.Case {
			r := rng("C02", seed, tier, idx)
			c := &core.Case{Prop: "C02", Tier: tier, Seed: seed, Index: idx}
			c.Family, c.Edges = smallGraph(r)
			ids := nodeIDs(c.Edges)
			o := fastCell(r, len(ids), false)
			c.Regime = pickRegime(r)
			applySizes(r, &o, ids, r.Intn(sizeModes), c.Regime, 120)
			o.NodeSpacing = spacingVal(r, c.Regime, true)
			o.LayerSpacing = spacingVal(r, c.Regime, true)
			o.Virtual = r.Intn(2) == 0
			o.VirtualSet = r.Intn(2) == 0
			capNS(&o)
			if extremeScale(r, &o) {
				c.Family += "+extreme-scale"
			}
			c.Opts = o
			return c
		},
		Check: func(c *core.Case, wantSample bool) Result {
			res := core.Run(c.Edges, c.Opts)
			if res.Panic != nil {
				return noReturn(res.Panic)
			}
			r := checkC02(c, res)
			f := inputFacts(c.Edges)
			r.Nontrivial = f.cyclic || f.selfLoops > 0 || f.components > 1 || f.edges > f.nodes-1
			if c.Opts.Virtual {
				r.stat("virtual_on", 1)
			}
			if c.Opts.Sizes != nil && len(c.Opts.Sizes) < f.nodes {
				r.stat("size_map_partial", 1)
			}
			if f.selfLoops > 0 {
				r.stat("inputs_with_self_loops", 1)
			}
			if f.cyclic {
				r.stat("cyclic_inputs", 1)
			}
			if f.parallelPairs+f.antiPairs > 0 {
				r.stat("multigraph_inputs", 1)
			}
			if len(res.Layout.Nodes) > f.nodes {
				r.stat("helper_nodes_seen", 1)
			}
			if wantSample && r.Verdict == Held {
				r.Sample = layoutSample(c, res.Layout, nil)
			}
			return r
		},
	})
}

func checkC02(c *core.Case, res core.RunResult) Result {
	l := res.Layout
	ids := nodeIDs(c.Edges)
	isInput := map[string]bool{}
	for _, id := range ids {
		isInput[id] = true
	}
	seen := map[string]int{}
	extra := 0
	for _, n := range l.Nodes {
		if isInput[n.ID] {
			seen[n.ID]++
		} else {
			extra++
		}
	}
	for _, id := range ids {
		if seen[id] == 0 {
			return violated("C02/node-missing", fmt.Sprintf("input node %q is not in the output", id))
		}
		if seen[id] > 1 {
			return violated("C02/node-duplicated", fmt.Sprintf("input node %q appears %d times in the output", id, seen[id]))
		}
	}
	if extra > 0 && !c.Opts.Virtual {
		return violated("C02/extra-node", fmt.Sprintf("%d output nodes are not input nodes although virtual output is off", extra))
	}
	// sizes
	for _, n := range l.Nodes {
		if !isInput[n.ID] {
			continue
		}
		w, h := c.Opts.ExpectedSize(n.ID)
		if n.W != w || n.H != h {
			listed := "no size option covers it"
			if _, ok := c.Opts.Sizes[n.ID]; ok {
				listed = "listed in the size map"
			} else if c.Opts.HasFixed {
				listed = "not in the size map, fixed size applies"
			}
			return violated("C02/size", fmt.Sprintf("node %q has size %vx%v, configured %vx%v (%s)", n.ID, n.W, n.H, w, h, listed))
		}
	}
	// edges: multiset equality on (from,to); with virtual output on, extras are allowed only if they touch a helper node
	want := map[[2]string]int{}
	for _, e := range c.Edges {
		want[[2]string{e[0], e[1]}]++
	}
	got := map[[2]string]int{}
	for _, e := range l.Edges {
		k := [2]string{e.FromID, e.ToID}
		if !isInput[e.FromID] || !isInput[e.ToID] {
			if !c.Opts.Virtual {
				return violated("C02/extra-edge", fmt.Sprintf("edge %s touches a node that is not an input node", fmtEdge(e)))
			}
			continue
		}
		got[k]++
		if e.FromID == e.ToID && len(e.Points) != 0 {
			return violated("C02/self-loop-routed", fmt.Sprintf("self loop %s has %d points", fmtEdge(e), len(e.Points)))
		}
	}
	for k, n := range want {
		if got[k] != n {
			rev := got[[2]string{k[1], k[0]}] - want[[2]string{k[1], k[0]}]
			hint := ""
			if rev > 0 && k[0] != k[1] {
				hint = " (the opposite direction has a surplus: an edge came back reversed)"
			}
			return violated("C02/edge-multiplicity", fmt.Sprintf("edge %s->%s given %d times, returned %d times%s", k[0], k[1], n, got[k], hint))
		}
	}
	for k, n := range got {
		if want[k] == 0 {
			return violated("C02/extra-edge", fmt.Sprintf("edge %s->%s returned %d times but never given", k[0], k[1], n))
		}
	}
	return held()
}

// ---------------------------------------------------------------------------------------------------------------- C03

func geomGraph(r *rand.Rand) (string, [][]string) {
	fam, edges := geomGraphN(r)
	if r.Intn(10) == 0 {
		// node names are opaque: a tenth of the cases uses names whose concatenations collide ("a"+"ab" == "aa"+"b")
		return fam + "+ambiguous-names", renameEdges(edges, ambiguousNames(r, nodeIDs(edges)))
	}
	return fam, edges
}

func geomGraphN(r *rand.Rand) (string, [][]string) {
	if r.Intn(40) == 0 {
		g := gen.LongEdges(r)
		return g.Family, gen.Names(g)
	}
	switch r.Intn(12) {
	case 0:
		g := gen.Deep(r, 5+r.Intn(20), 2, 0.2)
		return g.Family, gen.Names(g)
	case 1, 2:
		g := gen.Skip(r, 3+r.Intn(5), 1, 4, 0.35, 1+r.Intn(6), 2+r.Intn(4))
		return g.Family, gen.Names(g)
	case 3:
		g := gen.Coincidence(r)
		return g.Family, gen.Names(g)
	case 4, 5:
		g := gen.Slack(r)
		return g.Family, gen.Names(g)
	default:
		return smallGraph(r)
	}
}

func init() {
	register(&Property{
		ID:    "C03",
		Title: "Hierarchical drawing",
		Count: counts(30000, 400000),
		Rule: "graphs from F1-F5, F7, F9, F11 x {greedy, greedy-random, dfs} x {ns, lp} x all 9 positioner variants x LayerSpacing > 0 x heterogeneous heights (incl. 0), routing noop/straight; " +
			"oracle: per component band spacing >= max height + LayerSpacing, edges join different bands, downward on acyclic inputs, upward iff ArrowHeadStart; " +
			"non-trivial = >= 3 bands in some component and (cyclic | parallel/antiparallel pair | edge spanning >= 2 bands)",
		MinNontrivial: counts(5000, 60000),
		Required:      []string{"cyclic_inputs", "acyclic_inputs", "long_edges", "upward_edges"},
		Gen: func(seed int64, tier string, idx int) *core.Case {
			r := rng("C03", seed, tier, idx)
			c := &core.Case{Prop: "C03", Tier: tier, Seed: seed, Index: idx}
			c.Family, c.Edges = geomGraph(r)
			hub := r.Intn(30) == 0
			if hub {
				// family F13 is aimed at the pivot rule of the network simplex layerer (dozens of candidate entering edges)
				g := gen.Hub(r)
				c.Family, c.Edges = g.Family, gen.Names(g)
			}
			if r.Intn(8) == 0 {
				// node names are opaque; an eighth of the cases uses names whose concatenations collide
				c.Edges = renameEdges(c.Edges, ambiguousNames(r, nodeIDs(c.Edges)))
				c.Family += "+ambiguous-names"
			}
			ids := nodeIDs(c.Edges)
			o := fastCell(r, len(ids), false)
			o.Router = []int{4, 1}[r.Intn(2)]
			if hub {
				o.Layerer, o.Router = 0, 4
				if o.Positioner == 3 {
					o.Positioner = 1
				}
			}
			c.Regime = pickRegime(r)
			if r.Intn(5) > 0 {
				heteroSizes(r, &o, ids, c.Regime, 120, 0.1)
			} else {
				applySizes(r, &o, ids, r.Intn(sizeModes), c.Regime, 120)
			}
			o.NodeSpacing = spacingVal(r, c.Regime, true)
			o.LayerSpacing = spacingVal(r, c.Regime, false)
			capNS(&o)
			if extremeScale(r, &o) {
				c.Family += "+extreme-scale"
			}
			c.Opts = o
			return c
		},
		Check: func(c *core.Case, wantSample bool) Result {
			res := core.Run(c.Edges, c.Opts)
			if res.Panic != nil {
				return noReturn(res.Panic)
			}
			v := newView(c.Edges, c.Opts, res.Layout, c.Regime != "decimal")
			if !v.allPresent() {
				return skipped("C02")
			}
			r := checkC03(c, v)
			if wantSample && r.Verdict == Held {
				r.Sample = layoutSample(c, res.Layout, nil)
			}
			return r
		},
	})
}

func checkC03(c *core.Case, v *view) Result {
	ls := c.Opts.LayerSpacingValue()
	bands := v.bandsOf()
	// tallest node per (component, band)
	maxH := make([]map[float64]float64, v.ncomp)
	for i := range maxH {
		maxH[i] = map[float64]float64{}
	}
	for _, id := range v.ids {
		n := v.n(id)
		if !finite(n.Y, n.H) {
			return violated("C03/non-finite", fmtNode(n))
		}
		m := maxH[v.comp[id]]
		m[n.Y] = math.Max(m[n.Y], n.H)
	}
	maxBands := 0
	for ci, ys := range bands {
		maxBands = max(maxBands, len(ys))
		for i := 1; i < len(ys); i++ {
			need := ys[i-1] + maxH[ci][ys[i-1]] + ls
			if !v.num.ge(ys[i], need) {
				return violated("C03/band-spacing/layerer="+core.LayererNames[c.Opts.Layerer],
					fmt.Sprintf("component %d: band at y=%v follows band at y=%v whose tallest node is %v high; LayerSpacing %v requires y >= %v",
						ci, ys[i], ys[i-1], maxH[ci][ys[i-1]], ls, need))
			}
		}
	}
	acyclic := !hasCycle(c.Edges)
	match := matchEdges(c.Edges, v.l)
	bi := v.bandIndex()
	long, up := 0, 0
	for i, e := range c.Edges {
		if isSelfLoop(e) {
			continue
		}
		if match[i] < 0 {
			return skipped("C02")
		}
		oe := v.l.Edges[match[i]]
		yf, yt := v.n(e[0]).Y, v.n(e[1]).Y
		if yf == yt {
			return violated("C03/flat-edge/layerer="+core.LayererNames[c.Opts.Layerer], fmt.Sprintf("edge %s->%s joins two nodes of the same band y=%v", e[0], e[1], yf))
		}
		if acyclic && yt < yf {
			return violated("C03/upward-edge-in-dag", fmt.Sprintf("input is acyclic but edge %s->%s runs upward (y %v -> %v)", e[0], e[1], yf, yt))
		}
		if (yt < yf) != oe.ArrowHeadStart {
			return violated("C03/arrow-flag", fmt.Sprintf("edge %s->%s runs from y=%v to y=%v but ArrowHeadStart=%v", e[0], e[1], yf, yt, oe.ArrowHeadStart))
		}
		if yt < yf {
			up++
		}
		if d := bi[e[0]] - bi[e[1]]; d > 1 || d < -1 {
			long++
		}
	}
	r := held()
	f := inputFacts(c.Edges)
	r.Nontrivial = maxBands >= 3 && (f.cyclic || f.parallelPairs+f.antiPairs > 0 || long > 0)
	if acyclic {
		r.stat("acyclic_inputs", 1)
	} else {
		r.stat("cyclic_inputs", 1)
	}
	r.stat("long_edges", long)
	r.stat("upward_edges", up)
	r.stat("bands_max", 0)
	return r
}

// ---------------------------------------------------------------------------------------------------------------- C04

func init() {
	register(&Property{
		ID:    "C04",
		Title: "No overlap, configured spacing",
		Count: counts(25000, 350000),
		Rule: "graphs from F1-F5, F8, F9, F11 x size-aware positioners {sink, valign, packright, ns(integer sizes and spacing)} x heterogeneous widths/heights incl. zero x NodeSpacing >= 0; " +
			"oracle: pairwise rectangle interiors disjoint, same-Y neighbours >= NodeSpacing apart (all components), coordinates finite and >= 0; " +
			"non-trivial = some band has >= 3 nodes with >= 2 distinct widths, or >= 2 components",
		MinNontrivial: counts(5000, 60000),
		Required:      []string{"positioner:sink", "positioner:valign", "positioner:packright", "positioner:ns", "zero_width_nodes", "node_spacing_zero", "multi_component_inputs"},
		Gen: func(seed int64, tier string, idx int) *core.Case {
			r := rng("C04", seed, tier, idx)
			c := &core.Case{Prop: "C04", Tier: tier, Seed: seed, Index: idx}
			if r.Intn(8) == 0 {
				g := gen.Wide(r, 2+r.Intn(3), 3, 14, 0.2)
				c.Family, c.Edges = g.Family, gen.Names(g)
			} else {
				c.Family, c.Edges = geomGraph(r)
			}
			ids := nodeIDs(c.Edges)
			var o core.Opts
			for {
				o = fastCell(r, len(ids), false)
				if o.SizeAware() {
					break
				}
			}
			if idx%3 == 0 { // the default positioner carries a third of the workload
				o.Positioner = 0
			}
			o.Router = []int{4, 1, 0}[r.Intn(3)]
			c.Regime = pickRegime(r)
			if o.Positioner == 3 {
				c.Regime = "integer"
			}
			maxSize := 120.0
			if o.Positioner == 3 {
				maxSize = 40
			}
			if r.Intn(6) > 0 {
				heteroSizes(r, &o, ids, c.Regime, maxSize, 0.1)
			} else {
				applySizes(r, &o, ids, r.Intn(sizeModes), c.Regime, maxSize)
			}
			o.NodeSpacing = spacingVal(r, c.Regime, true)
			o.LayerSpacing = spacingVal(r, c.Regime, true)
			capNS(&o)
			if extremeScale(r, &o) {
				c.Family += "+extreme-scale"
			}
			c.Opts = o
			return c
		},
		Check: func(c *core.Case, wantSample bool) Result {
			res := core.Run(c.Edges, c.Opts)
			if res.Panic != nil {
				return noReturn(res.Panic)
			}
			v := newView(c.Edges, c.Opts, res.Layout, c.Regime != "decimal")
			if !v.allPresent() {
				return skipped("C02")
			}
			r := checkC04(c, v)
			if wantSample && r.Verdict == Held {
				r.Sample = layoutSample(c, res.Layout, nil)
			}
			return r
		},
	})
}

func checkC04(c *core.Case, v *view) Result {
	ns := c.Opts.NodeSpacingValue()
	pos := core.PositionerNames[c.Opts.Positioner]
	type rect struct {
		id         string
		x, y, w, h float64
	}
	var rs []rect
	zeroW := 0
	for _, id := range v.ids {
		n := v.n(id)
		if !finite(n.X, n.Y, n.W, n.H) {
			return violated("C04/non-finite/positioning="+pos, fmtNode(n))
		}
		if n.X < 0 && !v.num.eq(n.X, 0) || n.Y < 0 && !v.num.eq(n.Y, 0) {
			return violated("C04/negative-coordinate/positioning="+pos, fmtNode(n))
		}
		if n.W == 0 {
			zeroW++
		}
		rs = append(rs, rect{id, n.X, n.Y, n.W, n.H})
	}
	tol := 0.0
	if !v.num.exact {
		tol = 1e-9 * math.Max(1, v.num.scale)
	}
	for i := 0; i < len(rs); i++ {
		for j := i + 1; j < len(rs); j++ {
			a, b := rs[i], rs[j]
			ox := math.Min(a.x+a.w, b.x+b.w) - math.Max(a.x, b.x)
			oy := math.Min(a.y+a.h, b.y+b.h) - math.Max(a.y, b.y)
			if ox > tol && oy > tol {
				return violated("C04/overlap/positioning="+pos, fmt.Sprintf("nodes %s and %s overlap by %v x %v",
					fmtNode(v.n(a.id)), fmtNode(v.n(b.id)), ox, oy))
			}
		}
	}
	// same-Y neighbours keep NodeSpacing (all components together: the shift between components adds NodeSpacing too).
	// Bands are recognised by their Y; with LayerSpacing = 0 and a zero-height layer two different layers share one Y,
	// so the spacing clause is only judged for LayerSpacing > 0 (the overlap clause is judged always).
	byY := map[float64][]rect{}
	if c.Opts.LayerSpacingValue() > 0 {
		for _, r := range rs {
			byY[r.y] = append(byY[r.y], r)
		}
	}
	nt := v.ncomp >= 2
	for _, band := range byY {
		sort.Slice(band, func(i, j int) bool {
			if band[i].x != band[j].x {
				return band[i].x < band[j].x
			}
			return band[i].x+band[i].w < band[j].x+band[j].w
		})
		widths := map[float64]bool{}
		for i, r := range band {
			widths[r.w] = true
			if i == 0 {
				continue
			}
			p := band[i-1]
			gap := r.x - (p.x + p.w)
			if !v.num.ge(gap, ns) {
				return violated("C04/spacing/positioning="+pos, fmt.Sprintf("nodes %s and %s of the band y=%v are %v apart, NodeSpacing is %v",
					fmtNode(v.n(p.id)), fmtNode(v.n(r.id)), r.y, gap, ns))
			}
		}
		if len(band) >= 3 && len(widths) >= 2 {
			nt = true
		}
	}
	r := held()
	r.Nontrivial = nt
	r.stat("positioner:"+pos, 1)
	r.stat("zero_width_nodes", zeroW)
	if ns == 0 {
		r.stat("node_spacing_zero", 1)
	}
	if v.ncomp > 1 {
		r.stat("multi_component_inputs", 1)
	}
	return r
}

// ---------------------------------------------------------------------------------------------------------------- C05

func init() {
	register(&Property{
		ID:    "C05",
		Title: "Edge anchoring and arrowheads",
		Count: counts(20000, 300000),
		Rule: "graphs from F2-F5, F9, F11 (reversed x long x parallel edges, several components) x all positioners x {straight, polyline, ortho, splines}; " +
			"oracle: first point = bottom-centre of the endpoint in the upper band, last point = top-centre of the endpoint in the lower band (computed from the returned rectangles), " +
			"arrowhead end (first point iff ArrowHeadStart) on the top/bottom centre of the ToID node and the other end on that of the FromID node (also when LayerSpacing = 0 makes bands coincide), points finite; non-trivial = a reversed edge spanning >= 2 bands, or a routed edge in a shifted (non-first) component",
		MinNontrivial: counts(3000, 40000),
		Required:      []string{"router:straight", "router:polyline", "router:ortho", "router:splines", "reversed_long_edges", "edges_in_shifted_components", "edges_between_coinciding_bands"},
		Gen: func(seed int64, tier string, idx int) *core.Case {
			r := rng("C05", seed, tier, idx)
			c := &core.Case{Prop: "C05", Tier: tier, Seed: seed, Index: idx}
			c.Family, c.Edges = geomGraph(r)
			ids := nodeIDs(c.Edges)
			o := fastCell(r, len(ids), false)
			o.Router = r.Intn(4)
			c.Regime = pickRegime(r)
			if r.Intn(5) > 0 {
				heteroSizes(r, &o, ids, c.Regime, 120, 0.08)
			} else {
				applySizes(r, &o, ids, r.Intn(sizeModes), c.Regime, 120)
			}
			o.NodeSpacing = spacingVal(r, c.Regime, true)
			o.LayerSpacing = spacingVal(r, c.Regime, true)
			capNS(&o)
			if extremeScale(r, &o) {
				c.Family += "+extreme-scale"
			}
			c.Opts = o
			return c
		},
		Check: func(c *core.Case, wantSample bool) Result {
			res := core.Run(c.Edges, c.Opts)
			if res.Panic != nil {
				return noReturn(res.Panic)
			}
			v := newView(c.Edges, c.Opts, res.Layout, c.Regime != "decimal")
			if !v.allPresent() {
				return skipped("C02")
			}
			r := checkC05(c, v)
			if wantSample && r.Verdict == Held {
				r.Sample = layoutSample(c, res.Layout, nil)
			}
			return r
		},
	})
}

func checkC05(c *core.Case, v *view) Result {
	router := core.RouterNames[c.Opts.Router]
	match := matchEdges(c.Edges, v.l)
	bi := v.bandIndex()
	revLong, shifted, sameY := 0, 0, 0
	firstComp := -1
	if len(v.ids) > 0 {
		firstComp = v.comp[v.ids[0]]
	}
	for i, e := range c.Edges {
		if isSelfLoop(e) {
			continue
		}
		if match[i] < 0 {
			return skipped("C02")
		}
		oe := v.l.Edges[match[i]]
		from, to := v.n(e[0]), v.n(e[1])
		if len(oe.Points) < 2 {
			return violated("C05/unrouted/routing="+router, fmt.Sprintf("edge %s has %d points", fmtEdge(oe), len(oe.Points)))
		}
		for _, p := range oe.Points {
			if !finite(p[0], p[1]) {
				return violated("C05/non-finite/routing="+router, fmtEdge(oe))
			}
		}
		// the arrowhead end (first point iff ArrowHeadStart) is at the ToID node, the other end at the FromID node: each
		// end sits on the horizontal centre of its node, on its top or bottom side. This clause needs no notion of "upper".
		{
			arrow, tail := oe.Points[len(oe.Points)-1], oe.Points[0]
			if oe.ArrowHeadStart {
				arrow, tail = tail, arrow
			}
			at := func(p [2]float64, n graph.Node) bool {
				return v.num.eq(p[0], n.X+n.W/2) && (v.num.eq(p[1], n.Y) || v.num.eq(p[1], n.Y+n.H))
			}
			if !at(arrow, to) {
				return violated("C05/arrow-end-not-at-target/routing="+router, fmt.Sprintf("edge %s: arrowhead end %v (ArrowHeadStart=%v) is not on the top/bottom centre of its ToID node %s", fmtEdge(oe), arrow, oe.ArrowHeadStart, fmtNode(to)))
			}
			if !at(tail, from) {
				return violated("C05/tail-end-not-at-source/routing="+router, fmt.Sprintf("edge %s: tail end %v (ArrowHeadStart=%v) is not on the top/bottom centre of its FromID node %s", fmtEdge(oe), tail, oe.ArrowHeadStart, fmtNode(from)))
			}
		}
		if from.Y == to.Y {
			if c.Opts.LayerSpacingValue() > 0 {
				return skipped("C03") // flat edge: a C03 violation, upper/lower undefined
			}
			sameY++
			continue // LayerSpacing 0 and a zero-height band: bands coincide legitimately, "upper" is undefined
		}
		upper, lower := from, to
		toIsUpper := false
		if to.Y < from.Y {
			upper, lower = to, from
			toIsUpper = true
		}
		first, last := oe.Points[0], oe.Points[len(oe.Points)-1]
		wantFirst := [2]float64{upper.X + upper.W/2, upper.Y + upper.H}
		wantLast := [2]float64{lower.X + lower.W/2, lower.Y}
		if !v.num.eq(first[0], wantFirst[0]) || !v.num.eq(first[1], wantFirst[1]) {
			return violated("C05/start-anchor/routing="+router, fmt.Sprintf("edge %s: first point %v, bottom-centre of upper node %s is %v", fmtEdge(oe), first, fmtNode(upper), wantFirst))
		}
		if !v.num.eq(last[0], wantLast[0]) || !v.num.eq(last[1], wantLast[1]) {
			return violated("C05/end-anchor/routing="+router, fmt.Sprintf("edge %s: last point %v, top-centre of lower node %s is %v", fmtEdge(oe), last, fmtNode(lower), wantLast))
		}
		if oe.ArrowHeadStart != toIsUpper {
			return violated("C05/arrowhead/routing="+router, fmt.Sprintf("edge %s: ToID is the %s node but ArrowHeadStart=%v", fmtEdge(oe), map[bool]string{true: "upper", false: "lower"}[toIsUpper], oe.ArrowHeadStart))
		}
		span := bi[e[0]] - bi[e[1]]
		if span < 0 {
			span = -span
		}
		if toIsUpper && span >= 2 {
			revLong++
		}
		if v.comp[e[0]] != firstComp {
			shifted++
		}
	}
	r := held()
	r.Nontrivial = revLong > 0 || shifted > 0
	r.stat("router:"+router, 1)
	r.stat("reversed_long_edges", revLong)
	r.stat("edges_in_shifted_components", shifted)
	r.stat("edges_between_coinciding_bands", sameY)
	return r
}

// ---------------------------------------------------------------------------------------------------------------- C06

func init() {
	register(&Property{
		ID:    "C06",
		Title: "Route geometry per style",
		Count: counts(15000, 200000),
		Rule: "graphs with long edges from F9, F7, F1, F3, F11 x size-aware positioners x heterogeneous widths and heights x {straight, polyline, ortho, splines} x virtual output off/on; " +
			"oracle: straight = 2 points; polyline = span+1 points, y never decreases, no bend strictly inside a node, with virtual output one helper node per bend at the bend's x; " +
			"ortho = only horizontal/vertical segments; splines = 4k points, consecutive pieces join; non-trivial = an edge spanning >= 3 bands and a band with two different node heights",
		MinNontrivial: counts(2000, 25000),
		Required:      []string{"router:straight", "router:polyline", "router:ortho", "router:splines", "bends", "virtual_nodes_matched", "multi_piece_splines"},
		Gen: func(seed int64, tier string, idx int) *core.Case {
			r := rng("C06", seed, tier, idx)
			c := &core.Case{Prop: "C06", Tier: tier, Seed: seed, Index: idx}
			switch r.Intn(6) {
			case 0, 1:
				g := gen.Skip(r, 3+r.Intn(6), 1, 4, 0.35, 2+r.Intn(6), 2+r.Intn(5))
				c.Family, c.Edges = g.Family, gen.Names(g)
			case 2, 3:
				// several components with long edges: a bend of one component must not end up inside a node of the next
				var parts []gen.IG
				for k := 2 + r.Intn(2); k > 0; k-- {
					if r.Intn(3) == 0 {
						parts = append(parts, gen.DAG(r, 3+r.Intn(5), 0.5))
					} else {
						parts = append(parts, gen.Skip(r, 3+r.Intn(4), 1, 3, 0.4, 2+r.Intn(5), 2+r.Intn(3)))
					}
				}
				g, _ := gen.Union(r, parts)
				c.Family, c.Edges = "F5-union(long-edges)", gen.Names(g)
			default:
				c.Family, c.Edges = geomGraph(r)
			}
			ids := nodeIDs(c.Edges)
			var o core.Opts
			for {
				o = fastCell(r, len(ids), false)
				if o.SizeAware() {
					break
				}
			}
			o.Router = r.Intn(4)
			c.Regime = pickRegime(r)
			if o.Positioner == 3 {
				c.Regime = "integer"
			}
			heteroSizes(r, &o, ids, c.Regime, 100, 0.05)
			o.NodeSpacing = spacingVal(r, c.Regime, false)
			o.LayerSpacing = spacingVal(r, c.Regime, false)
			o.Virtual = r.Intn(2) == 0
			if o.Router == 0 && r.Intn(6) == 0 {
				// abutting bands: LayerSpacing 0 and bands of height 0, so that consecutive bands (and the bends between them)
				// share one y; a polyline still has one bend per intermediate band
				o.LayerSpacing = fptr(0)
				if r.Intn(2) == 0 {
					o.Sizes, o.SizeXY = nil, nil
				} else {
					heteroSizes(r, &o, ids, c.Regime, 100, 0.7)
				}
				c.Family += "+abutting-bands"
			}
			capNS(&o)
			if extremeScale(r, &o) {
				c.Family += "+extreme-scale"
			}
			c.Opts = o
			return c
		},
		Check: func(c *core.Case, wantSample bool) Result {
			res := core.Run(c.Edges, c.Opts)
			if res.Panic != nil {
				return noReturn(res.Panic)
			}
			v := newView(c.Edges, c.Opts, res.Layout, c.Regime != "decimal")
			if !v.allPresent() {
				return skipped("C02")
			}
			r := checkC06(c, v)
			if wantSample && r.Verdict == Held {
				r.Sample = layoutSample(c, res.Layout, nil)
			}
			return r
		},
	})
}

func checkC06(c *core.Case, v *view) Result {
	router := core.RouterNames[c.Opts.Router]
	match := matchEdges(c.Edges, v.l)
	bi := v.bandIndex()
	// with LayerSpacing 0 bands of height 0 coincide with their neighbours, so the bands cannot be read off the y coordinates:
	// the band of every node is taken from a second run that differs in the layer spacing only (layering and ordering do not
	// depend on it)
	abutting := c.Opts.LayerSpacing != nil && *c.Opts.LayerSpacing == 0
	if abutting {
		ro := c.Opts
		ro.LayerSpacing = fptr(64)
		ref := core.Run(c.Edges, ro)
		if ref.Panic != nil {
			return noReturn(ref.Panic)
		}
		rv := newView(c.Edges, ro, ref.Layout, v.num.exact)
		if !rv.allPresent() {
			return skipped("C02")
		}
		bi = rv.bandIndex()
	}
	// helper nodes (only present with virtual output)
	type helper struct {
		x, y float64
		used bool
	}
	var helpers []*helper
	for _, n := range v.l.Nodes {
		if !v.isInput[n.ID] {
			helpers = append(helpers, &helper{x: n.X + n.W/2, y: n.Y})
		}
	}
	bends, maxSpan, pieces := 0, 0, 0
	for i, e := range c.Edges {
		if isSelfLoop(e) {
			continue
		}
		if match[i] < 0 {
			return skipped("C02")
		}
		oe := v.l.Edges[match[i]]
		if v.n(e[0]).Y == v.n(e[1]).Y && !abutting {
			return skipped("C03")
		}
		span := bi[e[0]] - bi[e[1]]
		if span < 0 {
			span = -span
		}
		maxSpan = max(maxSpan, span)
		pts := oe.Points
		switch c.Opts.Router {
		case 1: // straight
			if len(pts) != 2 {
				return violated("C06/straight-points", fmt.Sprintf("straight edge %s has %d points", fmtEdge(oe), len(pts)))
			}
		case 0: // polyline
			if len(pts) != span+1 {
				return violated("C06/polyline-bends", fmt.Sprintf("edge %s spans %d bands but has %d points (want %d)", fmtEdge(oe), span, len(pts), span+1))
			}
			for k := 1; k < len(pts); k++ {
				if pts[k][1] < pts[k-1][1] && !v.num.eq(pts[k][1], pts[k-1][1]) {
					return violated("C06/polyline-upward", fmt.Sprintf("edge %s goes upward between %v and %v", fmtEdge(oe), pts[k-1], pts[k]))
				}
			}
			for k := 1; k+1 < len(pts); k++ {
				bends++
				p := pts[k]
				for _, id := range v.ids {
					n := v.n(id)
					if p[0] > n.X && p[0] < n.X+n.W && p[1] > n.Y && p[1] < n.Y+n.H {
						// strictly inside, beyond tolerance
						d := math.Min(math.Min(p[0]-n.X, n.X+n.W-p[0]), math.Min(p[1]-n.Y, n.Y+n.H-p[1]))
						if v.num.exact || d > 1e-9*v.num.scale {
							return violated("C06/bend-inside-node", fmt.Sprintf("bend %v of edge %s lies strictly inside node %s", p, fmtEdge(oe), fmtNode(n)))
						}
					}
				}
				if c.Opts.Virtual {
					found := false
					// the bend sits half a band height below the top of its band, where the helper node is: among the unused
					// helpers at the bend's x take the one closest above the bend
					var best *helper
					for _, h := range helpers {
						if !h.used && v.num.eq(h.x, p[0]) && h.y <= p[1] && (best == nil || h.y > best.y) {
							best = h
						}
					}
					if best != nil {
						best.used = true
						found = true
					}
					if !found {
						return violated("C06/bend-without-helper", fmt.Sprintf("bend %v of edge %s has no helper node at its x", p, fmtEdge(oe)))
					}
				}
			}
		case 2: // ortho
			if len(pts) < 2 {
				return violated("C06/ortho-points", fmt.Sprintf("ortho edge %s has %d points", fmtEdge(oe), len(pts)))
			}
			for k := 1; k < len(pts); k++ {
				if !v.num.eq(pts[k][0], pts[k-1][0]) && !v.num.eq(pts[k][1], pts[k-1][1]) {
					return violated("C06/ortho-slanted", fmt.Sprintf("edge %s has the slanted segment %v -> %v", fmtEdge(oe), pts[k-1], pts[k]))
				}
			}
		case 3: // splines
			if len(pts) == 0 || len(pts)%4 != 0 {
				return violated("C06/spline-count", fmt.Sprintf("spline edge %s has %d control points", fmtEdge(oe), len(pts)))
			}
			for k := 4; k < len(pts); k += 4 {
				if pts[k] != pts[k-1] {
					return violated("C06/spline-join", fmt.Sprintf("edge %s: piece ending at %v is followed by a piece starting at %v", fmtEdge(oe), pts[k-1], pts[k]))
				}
			}
			if len(pts) > 4 {
				pieces++
			}
		}
	}
	if c.Opts.Router == 0 && c.Opts.Virtual {
		for _, h := range helpers {
			if !h.used {
				return violated("C06/helper-without-bend", fmt.Sprintf("%d helper nodes returned, %d bends: helper at x=%v y=%v has no bend", len(helpers), bends, h.x, h.y))
			}
		}
	}
	// heterogeneous heights inside a band
	hetero := false
	hs := map[float64]map[float64]bool{}
	for _, id := range v.ids {
		n := v.n(id)
		if hs[n.Y] == nil {
			hs[n.Y] = map[float64]bool{}
		}
		hs[n.Y][n.H] = true
		if len(hs[n.Y]) >= 2 {
			hetero = true
		}
	}
	r := held()
	r.Nontrivial = maxSpan >= 3 && hetero
	r.stat("router:"+router, 1)
	r.stat("bends", bends)
	r.stat("multi_piece_splines", pieces)
	if abutting && c.Opts.Router == 0 && maxSpan >= 2 {
		r.stat("abutting_band_polylines", 1)
	}
	if c.Opts.Router == 0 && c.Opts.Virtual {
		r.stat("virtual_nodes_matched", len(helpers))
	}
	return r
}

// ---------------------------------------------------------------------------------------------------------------- C07

func init() {
	register(&Property{
		ID:     "C07",
		Title:  "Deterministic and side-effect free",
		Budget: 150, // 6 (16) repetitions of one call per case; hangs are C01's business, the budget only bounds a stuck worker
		Count:  counts(6000, 40000),
		Rule: "graphs from F3-F5, F11 plus the general mixture (ties, several reversed edges on one node, >= 2 self loops, >= 2 components) x all cells except greedy-random; " +
			"every case is executed r times in one process (quick 6, thorough 16) and the canonical encodings (node order, ids, float bits, points, flags) are compared byte-wise; " +
			"every worker is a fresh process, and the driver additionally re-executes a sample of cases in a second fresh process and compares digests; " +
			"the caller's edge slice and the very size map handed to the library are compared with deep copies taken before the call; every 1000th case is a tree of 110-130 nodes with the network simplex positioner, repeated once more on a single processor shared with 15 busy goroutines (no other Layout call running), which stretches its wall-clock time about 16x; non-trivial = >= 2 components | >= 2 self loops | antiparallel/parallel pair | cycle",
		MinNontrivial: counts(2000, 12000),
		CrossProcess:  0.25,
		Required:      []string{"multi_component_inputs", "inputs_with_2_self_loops", "multigraph_inputs", "cyclic_inputs", "starved_repetitions"},
		Gen: func(seed int64, tier string, idx int) *core.Case {
			r := rng("C07", seed, tier, idx)
			c := &core.Case{Prop: "C07", Tier: tier, Seed: seed, Index: idx}
			if idx%1000 == 250 {
				// the same call on a starved processor: one repetition runs on a single processor that it shares with 15 busy
				// goroutines, so it takes about 16x longer on the wall clock; a result that depends on elapsed time (a time
				// budget inside an algorithm) then differs from the other repetitions. Inputs: trees of 110-130 nodes with
				// the network simplex positioner (practically all time is spent in pivot loops), as in C15's starved batch
				g := gen.Tree(r, 110+r.Intn(21), r.Intn(2) == 0)
				c.Family, c.Edges = "starved-repetition("+g.Family+")", gen.Names(g)
				var o core.Opts
				o.Positioner, o.Router = 3, []int{4, 0, 1}[r.Intn(3)]
				// network simplex layering: with longest-path layering the long edges of a tree make the positioner's auxiliary
				// graph so large that one call takes half a minute
				o.HasFixed, o.FixedW, o.FixedH = true, 40, 20
				o.NodeSpacing = fptr(10)
				c.Regime = "integer"
				c.Opts = o
				c.Note = "starved"
				return c
			}
			switch r.Intn(5) {
			case 0:
				// many small components and self loops
				var parts []gen.IG
				for k := 2 + r.Intn(4); k > 0; k-- {
					switch r.Intn(3) {
					case 0:
						parts = append(parts, gen.IG{N: 1, E: [][2]int{{0, 0}}, Family: "loop"})
					case 1:
						parts = append(parts, gen.SelfLoops(r, gen.DAG(r, 2+r.Intn(5), 0.5), 2))
					default:
						parts = append(parts, gen.Digraph(r, 2+r.Intn(5), 1+r.Intn(8)))
					}
				}
				g, _ := gen.Union(r, parts)
				c.Family, c.Edges = g.Family, gen.Names(g)
			case 1:
				g := gen.SelfLoops(r, gen.Multi(r, gen.Digraph(r, 3+r.Intn(8), 2+r.Intn(14)), 0.3, 0.3), 2+r.Intn(3))
				c.Family, c.Edges = g.Family, gen.Names(g)
			case 2:
				g := gen.Coincidence(r)
				c.Family, c.Edges = g.Family, gen.Names(g)
			default:
				c.Family, c.Edges = smallGraph(r)
			}
			ids := nodeIDs(c.Edges)
			o := fastCell(r, len(ids), true)
			c.Regime = pickRegime(r)
			applySizes(r, &o, ids, r.Intn(sizeModes), c.Regime, 100)
			o.NodeSpacing = spacingVal(r, c.Regime, true)
			o.LayerSpacing = spacingVal(r, c.Regime, true)
			o.Virtual = r.Intn(3) == 0
			capNS(&o)
			if extremeScale(r, &o) {
				c.Family += "+extreme-scale"
			}
			c.Opts = o
			return c
		},
		Check: func(c *core.Case, wantSample bool) Result {
			reps := 6
			if c.Tier == "thorough" {
				reps = 16
			}
			if c.Note == "starved" {
				reps = 2 // one call takes about a second; the third repetition is the starved one
			}
			// deep copies of the caller's data
			edgesCopy := make([][]string, len(c.Edges))
			for i, e := range c.Edges {
				edgesCopy[i] = append([]string{}, e...)
			}
			var sizesCopy map[string][2]float64
			if c.Opts.Sizes != nil {
				sizesCopy = map[string][2]float64{}
				for k, v := range c.Opts.Sizes {
					sizesCopy[k] = v
				}
			}
			// the very map handed to WithNodeSize, and a copy of it
			opts := c.Opts
			opts.SizeMap = c.Opts.BuildSizeMap()
			libSizesCopy := maps.Clone(opts.SizeMap)
			var first string
			var firstLayout = core.RunResult{}
			panics, interleaved := 0, 0
			for i := 0; i < reps; i++ {
				res := core.Run(c.Edges, opts)
				if res.Panic != nil {
					panics++
					continue
				}
				if !reflect.DeepEqual(c.Edges, edgesCopy) {
					return violated("C07/input-edges-modified", fmt.Sprintf("the caller's edge list changed: now %v, was %v", c.Edges, edgesCopy))
				}
				if !reflect.DeepEqual(c.Opts.Sizes, sizesCopy) || !reflect.DeepEqual(opts.SizeMap, libSizesCopy) {
					return violated("C07/input-sizes-modified", fmt.Sprintf("the caller's size map changed: now %v, was %v", opts.SizeMap, libSizesCopy))
				}
				enc := core.Canon(res.Layout)
				if first == "" {
					first = enc
					firstLayout = res
					if c.Index%2 == 0 && c.Note != "starved" {
						// between the first and the second repetition the same source is laid out once with other algorithms (and
						// without sizes): a result must not depend on what an earlier call with other options computed for this
						// input (anything remembered per input across calls)
						other := core.Opts{Breaker: 2 - 2*(c.Opts.Breaker/2), Layerer: 1 - c.Opts.Layerer, Positioner: 1 + (c.Opts.Positioner+1)%2, Router: (c.Opts.Router + 1) % 4, Explicit: true, Virtual: !c.Opts.Virtual, VirtualSet: true}
						core.Run(c.Edges, other)
						interleaved = 1
					}
					continue
				}
				if enc != first {
					return violated("C07/run-to-run/"+diffClass(first, enc),
						fmt.Sprintf("run 1 and run %d of the same call differ (%s):\n--- run 1\n%s--- run %d\n%s", i+1, diffClass(first, enc), first, i+1, enc))
				}
			}
			if c.Note == "starved" && first != "" {
				// one more repetition, alone (no concurrent Layout call: whatever differs is not C15's subject) but starved
				oldProcs := runtime.GOMAXPROCS(1)
				var stop atomic.Bool
				var wg sync.WaitGroup
				for k := 0; k < 15; k++ {
					wg.Add(1)
					go func() {
						defer wg.Done()
						x := 0
						for !stop.Load() {
							x++
						}
						_ = x
					}()
				}
				t0 := time.Now()
				res := core.Run(c.Edges, opts)
				el := time.Since(t0)
				stop.Store(true)
				wg.Wait()
				runtime.GOMAXPROCS(oldProcs)
				if res.Panic != nil {
					return violated("C07/run-to-run/sometimes-panics", "the call returned when run normally and panicked when run on a starved processor: "+res.Panic.Msg)
				}
				if enc := core.Canon(res.Layout); enc != first {
					return violated("C07/run-to-run/starved/"+diffClass(first, enc),
						fmt.Sprintf("the same call gives a different result when it runs %v on a processor shared with 15 busy goroutines (%s):\n--- normal\n%s--- starved\n%s", el.Round(time.Millisecond), diffClass(first, enc), clip(first, 800), clip(enc, 800)))
				}
			}
			// a result handed to the caller must not change when later calls are made (no aliasing with internal state)
			if first != "" && core.Canon(firstLayout.Layout) != first {
				return violated("C07/earlier-result-modified", fmt.Sprintf("the layout returned by the first call changed while later calls ran:\n--- as returned\n%s--- now\n%s", clip(first, 800), clip(core.Canon(firstLayout.Layout), 800)))
			}
			if panics == reps {
				return skipped("noreturn")
			}
			if panics > 0 {
				return violated("C07/run-to-run/sometimes-panics", fmt.Sprintf("%d of %d identical calls panicked, the others returned", panics, reps))
			}
			f := inputFacts(c.Edges)
			r := held()
			r.Nontrivial = f.components >= 2 || f.selfLoops >= 2 || f.parallelPairs+f.antiPairs > 0 || f.cyclic
			if f.components > 1 {
				r.stat("multi_component_inputs", 1)
			}
			if f.selfLoops >= 2 {
				r.stat("inputs_with_2_self_loops", 1)
			}
			if f.parallelPairs+f.antiPairs > 0 {
				r.stat("multigraph_inputs", 1)
			}
			if f.cyclic {
				r.stat("cyclic_inputs", 1)
			}
			r.stat("repetitions", reps)
			r.stat("interleaved_calls_with_other_options", interleaved)
			if c.Note == "starved" {
				r.stat("starved_repetitions", 1)
			}
			// digest for the cross-process comparison done by the driver
			r.Detail = "digest:" + HashString(first)
			if wantSample {
				r.Sample = layoutSample(c, firstLayout.Layout, map[string]any{"repetitions": reps})
			}
			return r
		},
	})
}

// diffClass says where two canonical encodings first differ: node order, node coordinates, edge order, edge points.
func diffClass(a, b string) string {
	la, lb := splitLines(a), splitLines(b)
	inEdges := false
	for i := 0; i < len(la) && i < len(lb); i++ {
		if len(la[i]) > 0 && la[i][0] == 'E' && len(la[i]) < 12 {
			inEdges = true
		}
		if la[i] != lb[i] {
			ida, idb := prefixTo(la[i], ':'), prefixTo(lb[i], ':')
			if inEdges {
				ida, idb = prefixTo(la[i], ' '), prefixTo(lb[i], ' ')
				if ida != idb {
					return "edge-order"
				}
				return "edge-data"
			}
			if ida != idb {
				return "node-order"
			}
			return "node-coordinates"
		}
	}
	return "length"
}

func splitLines(s string) []string {
	var out []string
	start := 0
	for i := 0; i < len(s); i++ {
		if s[i] == '\n' {
			out = append(out, s[start:i])
			start = i + 1
		}
	}
	return out
}

func prefixTo(s string, ch byte) string {
	for i := 0; i < len(s); i++ {
		if s[i] == ch {
			return s[:i]
		}
	}
	return s
}
