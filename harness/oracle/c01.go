package oracle

import (
	"fmt"
	"math/rand"

	"verifharness/core"
	"verifharness/gen"
)

// generalGraph draws from all families. small restricts the node count (used by the slow network simplex positioner).
func generalGraph(r *rand.Rand, idx int, maxN int, allowBig bool) (string, [][]string) {
	switch k := r.Intn(40); {
	case k == 0:
		return gen.CorpusGraph(r.Intn(len(gen.Corpus)))
	case k == 1 && allowBig:
		g := gen.Deep(r, 66+r.Intn(30), 2+r.Intn(2), 0.15)
		return g.Family, gen.Names(g)
	case k == 2 && allowBig:
		g := gen.Wide(r, 2+r.Intn(4), 10, 30, 0.06)
		return g.Family, gen.Names(g)
	case k == 3 && allowBig:
		n := 60 + r.Intn(90)
		g := gen.DAG(r, n, (1.2+0.8*r.Float64())/float64(n))
		return g.Family + "-big", gen.Names(g)
	case k <= 5:
		g := gen.Tree(r, 2+r.Intn(maxN), r.Intn(2) == 0)
		return g.Family, gen.Names(g)
	case k <= 8:
		g := gen.Coincidence(r)
		if g.N > maxN {
			g = gen.DAG(r, maxN, 2.5/float64(maxN))
		}
		return g.Family, gen.Names(g)
	default:
		g := gen.Mixed(r, maxN)
		if g.N > maxN+8 {
			g = gen.DAG(r, maxN, 2.5/float64(maxN))
		}
		return g.Family, gen.Names(g)
	}
}

func init() {
	register(&Property{
		ID:    "C01",
		Title: "Layout always returns",
		Count: counts(270*48, 270*400),
		Rule: "case i uses algorithm cell i mod 270 (3 breakers x 2 layerers x 9 positioners x 5 routers; every second sweep over the grid forces splines routing), a graph from families F1-F11 " +
			"(<= 40 nodes, a few deep/wide/300-node ones for linear cells; <= 14 nodes for the network simplex positioner), a random size mode " +
			"(none/fixed/map all/map some/map none/zeros), spacings in {0, small, default, medium, large}, thoroughness in {default,0,1,7,100}; " +
			"non-trivial = >= 3 nodes and (cycle | parallel/antiparallel pair | self loop | >= 2 components | more edges than nodes-1)",
		Budget:           20,
		DeathIsViolation: true,
		MinNontrivial:    counts(2000, 30000),
		Assumptions: []string{
			"inputs are non-empty well-formed edge lists; sizes and spacings finite and >= 0",
			"network simplex positioner cells are limited to <= 14 input nodes and sizes <= 64 (documented poor run time; X is a layer count)",
			"a timeout under load is confirmed alone with 5x budget before it counts as a hang; confirmed-slow cases are reported, not charged",
		},
		Gen: func(seed int64, tier string, idx int) *core.Case {
			r := rng("C01", seed, tier, idx)
			o := cellFromIndex(idx)
			if (idx/270)%2 == 1 {
				// every second sweep over the grid replaces the router by splines: corridor construction, shortest path and
				// spline fitting are by far the most fragile code, and only one cell in five reaches them otherwise
				o.Router = 3
			}
			o.Explicit = r.Intn(2) == 0
			c := &core.Case{Prop: "C01", Tier: tier, Seed: seed, Index: idx}
			maxN := 40
			allowBig := true
			maxSize := 200.0
			if o.Positioner == 3 {
				maxN, allowBig, maxSize = 14, false, 64
			}
			if o.Router == 3 {
				allowBig = false
			}
			c.Family, c.Edges = generalGraph(r, idx, maxN, allowBig)
			if o.Positioner == 3 && len(nodeIDs(c.Edges)) > 16 {
				g := gen.DAG(r, 10, 0.3)
				c.Family, c.Edges = g.Family, gen.Names(g)
			}
			if o.Breaker == 1 {
				o.GreedySeed = r.Int63()
			}
			c.Regime = pickRegime(r)
			if o.Positioner == 3 && r.Intn(2) == 0 {
				c.Regime = "integer"
			}
			applySizes(r, &o, nodeIDs(c.Edges), r.Intn(sizeModes), c.Regime, maxSize)
			o.NodeSpacing = spacingVal(r, c.Regime, true)
			o.LayerSpacing = spacingVal(r, c.Regime, true)
			if (idx/270)%2 == 1 && r.Intn(2) == 0 {
				// regular geometry (one fixed size, round spacings): nodes line up, corridor corners become collinear and
				// path points coincide with polygon vertices, the coincidences the geometry code is sensitive to
				o.Sizes = nil
				o.HasFixed, o.FixedW, o.FixedH = true, float64(10*(1+r.Intn(12))), float64(10*(1+r.Intn(8)))
				o.NodeSpacing = fptr(float64(10 * (1 + r.Intn(8))))
				o.LayerSpacing = fptr(float64(10 * (1 + r.Intn(12))))
				if o.Positioner == 3 {
					o.FixedW, o.NodeSpacing = float64(10*(1+r.Intn(5))), fptr(float64(10*(1+r.Intn(3))))
				}
			}
			if o.Positioner == 3 && o.NodeSpacing != nil && *o.NodeSpacing > 64 {
				o.NodeSpacing = fptr(64)
			}
			switch r.Intn(6) {
			case 0:
				o.Thoroughness = uptr(0)
			case 1:
				o.Thoroughness = uptr(1)
			case 2:
				o.Thoroughness = uptr(7)
			case 3:
				o.Thoroughness = uptr(100)
			}
			o.Virtual = r.Intn(4) == 0
			if extremeScale(r, &o) {
				c.Family += "+extreme-scale"
			}
			c.Opts = o
			return c
		},
		Check: func(c *core.Case, wantSample bool) Result {
			res := core.Run(c.Edges, c.Opts)
			f := inputFacts(c.Edges)
			var r Result
			if res.Panic != nil {
				r = violated("C01/panic/"+res.Panic.Func+"/"+res.Panic.Class,
					fmt.Sprintf("Layout panicked: %s | in %s | cell %s | %s\n%s", res.Panic.Msg, res.Panic.Func, c.Opts.Cell(), core.Diagnose(c.Edges, c.Opts), res.Panic.Stack))
			} else {
				r = held()
			}
			r.Nontrivial = f.nodes >= 3 && (f.cyclic || f.parallelPairs > 0 || f.antiPairs > 0 || f.selfLoops > 0 || f.components > 1 || f.edges > f.nodes-1)
			if f.cyclic {
				r.stat("cyclic_inputs", 1)
			}
			if f.components > 1 {
				r.stat("multi_component_inputs", 1)
			}
			if f.selfLoops > 0 {
				r.stat("inputs_with_self_loops", 1)
			}
			if f.parallelPairs+f.antiPairs > 0 {
				r.stat("multigraph_inputs", 1)
			}
			if res.Panic == nil {
				r.stat("returned", 1)
			}
			if wantSample && res.Panic == nil {
				r.Sample = layoutSample(c, res.Layout, nil)
			}
			return r
		},
	})
}
