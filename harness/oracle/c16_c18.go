package oracle

import (
	"fmt"
	"math"
	"runtime"
	"sort"
	"sync/atomic"

	"github.com/nulab/autog"
	"github.com/nulab/autog/graph"

	"verifharness/core"
	"verifharness/gen"
)

// ---------------------------------------------------------------------------------------------------------------- C16

func init() {
	register(&Property{
		ID:    "C16",
		Title: "VAlign / PackRight identities",
		Count: counts(20000, 250000),
		Rule: "connected graphs from F1, F8, F9, F11, F2 (cycles) x heterogeneous widths incl. 0 x NodeSpacing >= 0 x LayerSpacing > 0 x {valign, packright} x ordering {wmedian, 1/8 noop}, an eighth with node names V1..Vk, helper nodes in the output; oracle per band " +
			"(helper nodes included): extent = sum of widths + (k-1)*NodeSpacing, every neighbour gap = NodeSpacing, leftmost x overall = 0, valign: all band midpoints equal, packright: all right ends equal; " +
			"exact comparison for dyadic inputs, 1e-9 relative for decimal ones; non-trivial = >= 3 bands with pairwise different total widths",
		MinNontrivial: counts(5000, 60000),
		Required:      []string{"positioner:valign", "positioner:packright", "bands_with_helper_nodes", "node_spacing_zero", "zero_width_nodes"},
		Gen: func(seed int64, tier string, idx int) *core.Case {
			r := rng("C16", seed, tier, idx)
			c := &core.Case{Prop: "C16", Tier: tier, Seed: seed, Index: idx}
			var g gen.IG
			acyclic := true
			switch r.Intn(8) {
			case 0:
				g = gen.Wide(r, 2+r.Intn(4), 2, 12, 0.25)
			case 1, 2:
				g = gen.Skip(r, 3+r.Intn(5), 1, 5, 0.35, 1+r.Intn(6), 2+r.Intn(4))
			case 3:
				g = gen.Coincidence(r)
				acyclic = false
			case 4:
				n := 3 + r.Intn(12)
				g = gen.Digraph(r, n, n+r.Intn(n))
				acyclic = false
			default:
				n := 2 + r.Intn(20)
				g = gen.DAG(r, n, math.Min(0.6, (1.5+2*r.Float64())/float64(n)))
			}
			g = gen.Connect(r, g, acyclic)
			c.Family, c.Edges = g.Family, gen.Names(g)
			if r.Intn(8) == 0 {
				// node names are opaque: an eighth of the cases uses the names autog mints for its own helper nodes
				m := map[string]string{}
				for i, p := range r.Perm(len(nodeIDs(c.Edges))) {
					m[nodeIDs(c.Edges)[i]] = fmt.Sprintf("V%d", p+1)
				}
				c.Edges = renameEdges(c.Edges, m)
				c.Family += "+V-names"
			}
			ids := nodeIDs(c.Edges)
			var o core.Opts
			o.NoOrdering = r.Intn(8) == 0 // the documented no-op ordering phase: the positioners must not depend on what phase 3 writes
			o.Breaker = r.Intn(3)
			if o.Breaker == 1 {
				o.GreedySeed = r.Int63()
			}
			o.Layerer = r.Intn(2)
			o.Positioner = 1 + idx%2
			o.Router = []int{4, 0, 1}[r.Intn(3)]
			o.Virtual = true
			c.Regime = pickRegime(r)
			if r.Intn(6) > 0 {
				heteroSizes(r, &o, ids, c.Regime, 100, 0.1)
			} else {
				applySizes(r, &o, ids, r.Intn(sizeModes), c.Regime, 100)
			}
			o.NodeSpacing = spacingVal(r, c.Regime, true)
			o.LayerSpacing = spacingVal(r, c.Regime, false)
			if extremeScale(r, &o) {
				c.Family += "+extreme-scale"
			}
			c.Opts = o
			return c
		},
		Check: func(c *core.Case, wantSample bool) Result {
			res := core.Run(c.Edges, c.Opts)
			if res.Panic != nil {
				return noReturn(res.Panic)
			}
			v := newView(c.Edges, c.Opts, res.Layout, c.Regime != "decimal")
			if !v.allPresent() {
				return skipped("C02")
			}
			if v.ncomp != 1 {
				panic("C16 generator produced a disconnected graph")
			}
			pos := core.PositionerNames[c.Opts.Positioner]
			ns := c.Opts.NodeSpacingValue()
			byY := map[float64][]graph.Node{}
			zeroW := 0
			for _, n := range res.Layout.Nodes {
				if !finite(n.X, n.Y, n.W, n.H) {
					return violated("C16/non-finite/"+pos, fmtNode(n))
				}
				byY[n.Y] = append(byY[n.Y], n)
				if n.W == 0 && v.isInput[n.ID] {
					zeroW++
				}
			}
			var ys []float64
			for y := range byY {
				ys = append(ys, y)
			}
			sort.Float64s(ys)
			minX := math.Inf(1)
			var ref float64
			widths := map[float64]bool{}
			helperBands := 0
			for bi, y := range ys {
				band := byY[y]
				sort.SliceStable(band, func(i, j int) bool {
					if band[i].X != band[j].X {
						return band[i].X < band[j].X
					}
					return band[i].X+band[i].W < band[j].X+band[j].W
				})
				sumW := 0.0
				hasHelper := false
				for i, n := range band {
					sumW += n.W
					minX = math.Min(minX, n.X)
					if !v.isInput[n.ID] {
						hasHelper = true
					}
					if i > 0 {
						p := band[i-1]
						if gap := n.X - (p.X + p.W); !v.num.eq(gap, ns) {
							return violated("C16/gap/"+pos, fmt.Sprintf("band y=%v: gap between %s and %s is %v, NodeSpacing is %v", y, fmtNode(p), fmtNode(n), gap, ns))
						}
					}
				}
				if hasHelper {
					helperBands++
				}
				left, right := band[0].X, band[len(band)-1].X+band[len(band)-1].W
				want := sumW + float64(len(band)-1)*ns
				if !v.num.eq(right-left, want) {
					return violated("C16/extent/"+pos, fmt.Sprintf("band y=%v spans %v, sum of widths + spacing is %v", y, right-left, want))
				}
				widths[want] = true
				var key float64
				if c.Opts.Positioner == 1 {
					key = (left + right) / 2
				} else {
					key = right
				}
				if bi == 0 {
					ref = key
				} else if !v.num.eq(key, ref) {
					what := map[int]string{1: "midpoint", 2: "right end"}[c.Opts.Positioner]
					return violated("C16/alignment/"+pos, fmt.Sprintf("band y=%v has its %s at %v, the first band at %v", y, what, key, ref))
				}
			}
			if !v.num.eq(minX, 0) {
				return violated("C16/leftmost/"+pos, fmt.Sprintf("leftmost node is at x=%v, want 0", minX))
			}
			r := held()
			r.Nontrivial = len(ys) >= 3 && len(widths) >= 3
			r.stat("positioner:"+pos, 1)
			r.stat("bands_with_helper_nodes", helperBands)
			r.stat("zero_width_nodes", zeroW)
			if ns == 0 {
				r.stat("node_spacing_zero", 1)
			}
			if wantSample {
				r.Sample = layoutSample(c, res.Layout, map[string]any{"bands": len(ys)})
			}
			return r
		},
	})
}

// ---------------------------------------------------------------------------------------------------------------- C17

func scaleOpts(o core.Opts, f float64) core.Opts {
	s := o
	if o.HasFixed {
		s.FixedW, s.FixedH = o.FixedW*f, o.FixedH*f
	}
	if o.Sizes != nil {
		s.Sizes = map[string][2]float64{}
		for k, v := range o.Sizes {
			s.Sizes[k] = [2]float64{v[0] * f, v[1] * f}
		}
	}
	s.NodeSpacing = fptr(o.NodeSpacingValue() * f)
	s.LayerSpacing = fptr(o.LayerSpacingValue() * f)
	return s
}

func scaleLayout(l graph.Layout, f float64) graph.Layout {
	out := graph.Layout{Nodes: make([]graph.Node, len(l.Nodes)), Edges: make([]graph.Edge, len(l.Edges))}
	for i, n := range l.Nodes {
		n.X, n.Y, n.W, n.H = n.X*f, n.Y*f, n.W*f, n.H*f
		out.Nodes[i] = n
	}
	for i, e := range l.Edges {
		if e.Points != nil {
			ps := make([][2]float64, len(e.Points))
			for k, p := range e.Points {
				ps[k] = [2]float64{p[0] * f, p[1] * f}
			}
			e.Points = ps
		}
		out.Edges[i] = e
	}
	return out
}

func init() {
	register(&Property{
		ID:    "C17",
		Title: "Scale equivariance",
		Count: counts(5000, 50000),
		Rule: "graphs from F1-F5, F9, F11 x {sink, valign, packright, bk, bk0-3} x {straight, polyline, ortho} x heterogeneous sizes x spacings (defaults made explicit); every case is laid out at scale 1 and at " +
			"2^k for 4 (quick) or all 10 (thorough) exponents k in -3..6 (k != 0); oracle: canonical encoding of Layout(c*sizes, c*spacings) equals the base encoding with every coordinate multiplied by c, " +
			"bit for bit (multiplication by a power of two is exact); non-trivial = heterogeneous sizes and a long edge (helper node)",
		MinNontrivial: counts(1200, 12000),
		Required:      []string{"scaled_runs", "router:ortho", "router:polyline", "positioner:sink", "positioner:bk"},
		Gen: func(seed int64, tier string, idx int) *core.Case {
			r := rng("C17", seed, tier, idx)
			c := &core.Case{Prop: "C17", Tier: tier, Seed: seed, Index: idx}
			c.Family, c.Edges = geomGraph(r)
			ids := nodeIDs(c.Edges)
			var o core.Opts
			o.Breaker = []int{0, 2}[r.Intn(2)]
			o.Layerer = r.Intn(2)
			o.Positioner = []int{0, 1, 2, 4, 5, 6, 7, 8}[r.Intn(8)]
			o.Router = []int{0, 1, 2}[r.Intn(3)]
			c.Regime = pickRegime(r)
			switch r.Intn(5) {
			case 0:
				applySizes(r, &o, ids, r.Intn(sizeModes), c.Regime, 120)
			case 1, 2:
				// almost uniform sizes and small spacings: differences of a few units are where an absolute constant
				// (a tolerance, a slack, a rounding) changes a decision at some scales only
				base := float64(20 + r.Intn(100))
				o.Sizes = map[string][2]float64{}
				for _, id := range ids {
					o.Sizes[id] = [2]float64{base + float64(r.Intn(9)) - 4, base/2 + float64(r.Intn(5))}
				}
			default:
				heteroSizes(r, &o, ids, c.Regime, 120, 0.08)
			}
			o.NodeSpacing = spacingVal(r, c.Regime, true)
			o.LayerSpacing = spacingVal(r, c.Regime, true)
			if r.Intn(4) == 0 {
				o.NodeSpacing = fptr(float64(1 + r.Intn(20)))
			}
			o.Virtual = r.Intn(3) == 0
			c.Opts = o
			all := []int{-3, -2, -1, 1, 2, 3, 4, 5, 6}
			if tier == "thorough" {
				c.Scales = all
			} else {
				// the extreme factors always (a hidden absolute constant bites hardest there), plus two random others
				mid := []int{-2, -1, 1, 2, 3, 4, 5}
				r.Shuffle(len(mid), func(i, j int) { mid[i], mid[j] = mid[j], mid[i] })
				c.Scales = []int{-3, 6, mid[0], mid[1]}
				sort.Ints(c.Scales)
			}
			return c
		},
		Check: func(c *core.Case, wantSample bool) Result {
			base := core.Run(c.Edges, c.Opts)
			if base.Panic != nil {
				return noReturn(base.Panic)
			}
			if again := core.Run(c.Edges, c.Opts); again.Panic != nil || core.Canon(again.Layout) != core.Canon(base.Layout) {
				return skipped("C07")
			}
			v := newView(c.Edges, c.Opts, base.Layout, true)
			if v.allPresent() {
				for _, e := range c.Edges {
					if !isSelfLoop(e) && v.n(e[0]).Y == v.n(e[1]).Y && c.Opts.LayerSpacingValue() > 0 {
						return skipped("C03") // flat edge routes use absolute constants
					}
				}
			}
			helpers := len(core.Run(c.Edges, withVirtual(c.Opts)).Layout.Nodes) - len(v.ids)
			runs := 0
			for _, k := range c.Scales {
				f := math.Ldexp(1, k)
				so := scaleOpts(c.Opts, f)
				got := core.Run(c.Edges, so)
				if got.Panic != nil {
					return violated("C17/panic-at-scale", fmt.Sprintf("Layout returns at scale 1 but panics at scale 2^%d: %s in %s", k, got.Panic.Msg, got.Panic.Func))
				}
				want := core.Canon(scaleLayout(base.Layout, f))
				if enc := core.Canon(got.Layout); enc != want {
					if !selfConsistent(c.Edges, so, 6) || !selfConsistent(c.Edges, c.Opts, 6) {
						return skipped("C07")
					}
					return violated("C17/not-equivariant/"+diffClass(want, enc)+"/"+core.PositionerNames[c.Opts.Positioner]+"/"+core.RouterNames[c.Opts.Router],
						fmt.Sprintf("scaling sizes and spacings by 2^%d does not scale the layout by 2^%d (%s):\n--- expected\n%s--- got\n%s%s", k, k, diffClass(want, enc), clip(want, 1200), clip(enc, 1200),
							firstNumericDiff(scaleLayout(base.Layout, f), got.Layout)))
				}
				runs++
			}
			hetero := false
			if c.Opts.Sizes != nil {
				ws := map[float64]bool{}
				for _, s := range c.Opts.Sizes {
					ws[s[0]] = true
				}
				hetero = len(ws) >= 2
			}
			r := held()
			r.Nontrivial = hetero && helpers > 0
			r.stat("scaled_runs", runs)
			r.stat("router:"+core.RouterNames[c.Opts.Router], 1)
			pn := core.PositionerNames[c.Opts.Positioner]
			if len(pn) > 2 && pn[:2] == "bk" {
				pn = "bk"
			}
			r.stat("positioner:"+pn, 1)
			if wantSample {
				r.Sample = layoutSample(c, base.Layout, map[string]any{"scales_2^k": c.Scales})
			}
			return r
		},
	})
}

func firstNumericDiff(want, got graph.Layout) string {
	for i := range want.Nodes {
		if i < len(got.Nodes) && want.Nodes[i] != got.Nodes[i] {
			return fmt.Sprintf("first difference: node %s expected %s got %s", want.Nodes[i].ID, fmtNode(want.Nodes[i]), fmtNode(got.Nodes[i]))
		}
	}
	for i := range want.Edges {
		if i < len(got.Edges) && fmt.Sprint(want.Edges[i]) != fmt.Sprint(got.Edges[i]) {
			return fmt.Sprintf("first difference: edge expected %s got %s", fmtEdge(want.Edges[i]), fmtEdge(got.Edges[i]))
		}
	}
	return ""
}

// ---------------------------------------------------------------------------------------------------------------- C18

// histMonitor is a recording monitor bound to the global logical clock of a history.
type histMonitor struct {
	id     int
	clock  *atomic.Int64
	events []histEvent
	filter bool
	bomb   int // panic on the n-th delivered event (0: never)
	seen   int
}

type histEvent struct {
	tick  int64
	phase int
	key   string
}

func (m *histMonitor) Log(phase int, alg, key string, val any) {
	if m.filter && phase != 3 {
		return
	}
	m.seen++
	m.events = append(m.events, histEvent{m.clock.Add(1), phase, key})
	if m.bomb > 0 && m.seen == m.bomb {
		panic("monitor bomb")
	}
}

func init() {
	register(&Property{
		ID:    "C18",
		Title: "A monitor only observes, and only its own call",
		Count: counts(2000, 30000),
		Rule: "scripted histories of 4-12 Layout calls over one logical clock: each call gets no monitor, a fresh recording monitor, the same monitor object as an earlier call, or a filtering monitor; inputs are " +
			"good graphs (F1-F5), the empty graph (documented panic), a malformed edge (panic while the source is read) and monitors whose Log panics on their n-th event; every call runs under recover; " +
			"offline checker: every event's tick lies inside the (start,end) interval of a call that was given that monitor object; the monitor globals are idle after every call (hook H4); a layout " +
			"computed with a monitor equals the layout computed without; non-trivial = the history contains a panicking call with a monitor followed by a call without one",
		MinNontrivial: counts(800, 10000),
		Required:      []string{"events_checked", "panicking_calls_with_monitor", "reused_monitor_objects", "layouts_compared", "library_chan_monitor_events"},
		Gen: func(seed int64, tier string, idx int) *core.Case {
			r := rng("C18", seed, tier, idx)
			c := &core.Case{Prop: "C18", Tier: tier, Seed: seed, Index: idx, Family: "history"}
			n := 4 + r.Intn(9)
			objects := 0
			for i := 0; i < n; i++ {
				var st core.Step
				switch r.Intn(8) {
				case 0:
					st.Graph = [][]string{} // empty graph: documented panic
				case 1:
					st.Graph = [][]string{{"a", "b"}, {"c"}} // malformed edge
				case 2:
					if r.Intn(4) == 0 {
						st.Graph = gen.Names(gen.LongEdges(r)) // edges over 20+ layers: thresholds on edge length
					} else {
						st.Graph = gen.Names(gen.Mixed(r, 9))
					}
				default:
					g := gen.Mixed(r, 9)
					st.Graph = gen.Names(g)
				}
				o := fastCell(r, 9, true)
				if r.Intn(3) == 0 {
					o.Router = 3 // splines log the most events
				}
				if r.Intn(2) == 0 && len(st.Graph) > 0 && len(st.Graph[len(st.Graph)-1]) == 2 {
					regime := "dyadic"
					if o.Positioner == 3 {
						regime = "integer"
					}
					heteroSizes(r, &o, nodeIDs(st.Graph), regime, 200, 0.05)
					if r.Intn(2) == 0 {
						o.NodeSpacing = spacingVal(r, regime, true)
					}
					capNS(&o)
				}
				st.Opts = o
				switch r.Intn(5) {
				case 0:
					st.Monitor = -1
				case 1:
					if objects > 0 {
						st.Monitor = r.Intn(objects) // reuse an earlier monitor object
					} else {
						st.Monitor = objects
						objects++
					}
				default:
					st.Monitor = objects
					objects++
				}
				if st.Monitor >= 0 {
					st.Filter = r.Intn(5) == 0
					if r.Intn(6) == 0 {
						st.LogBomb = 1 + r.Intn(4)
					}
				}
				c.History = append(c.History, st)
			}
			// make sure the interesting shape occurs often: a panicking call with a monitor directly followed by a call without
			if r.Intn(2) == 0 && n >= 2 {
				k := r.Intn(n - 1)
				c.History[k].Graph = [][]string{}
				if r.Intn(2) == 0 {
					c.History[k].Graph = [][]string{{"a", "b"}, {"c"}}
				}
				if c.History[k].Monitor < 0 {
					c.History[k].Monitor = objects
					objects++
				}
				c.History[k+1].Monitor = -1
				c.History[k+1].LogBomb = 0
				if len(c.History[k+1].Graph) == 0 || len(c.History[k+1].Graph[len(c.History[k+1].Graph)-1]) != 2 {
					c.History[k+1].Graph = [][]string{{"p", "q"}, {"q", "r"}, {"p", "r"}}
				}
			}
			return c
		},
		Check: func(c *core.Case, wantSample bool) Result {
			var clock atomic.Int64
			objs := map[int]*histMonitor{}
			var calls []interval
			layoutsCompared, reused, panMon := 0, 0, 0
			ntShape := false
			for si, st := range c.History {
				var extra []autog.Option
				var hm *histMonitor
				if st.Monitor >= 0 {
					hm = objs[st.Monitor]
					if hm == nil {
						hm = &histMonitor{id: st.Monitor, clock: &clock}
						objs[st.Monitor] = hm
					} else {
						reused++
					}
					hm.filter = st.Filter
					hm.bomb = st.LogBomb
					hm.seen = 0
					extra = append(extra, autog.WithMonitor(hm))
				}
				start := clock.Add(1)
				res := core.Run(st.Graph, st.Opts, extra...)
				end := clock.Add(1)
				calls = append(calls, interval{start, end, st.Monitor, res.Panic != nil})
				if !autog.VerifMonitorIdle() {
					return violated("C18/globals-not-idle", fmt.Sprintf("after call %d (monitor %d, panicked=%v) the package-level monitor state is not idle", si, st.Monitor, res.Panic != nil))
				}
				if res.Panic != nil && st.Monitor >= 0 {
					panMon++
					if si+1 < len(c.History) && c.History[si+1].Monitor < 0 {
						ntShape = true
					}
				}
				// a monitor must not change the result
				if res.Panic == nil && st.Monitor >= 0 {
					plain := core.Run(st.Graph, st.Opts)
					if plain.Panic != nil {
						return violated("C18/monitor-changes-outcome", fmt.Sprintf("call %d returns with a monitor but panics without: %s", si, plain.Panic.Msg))
					}
					if core.Canon(plain.Layout) != core.Canon(res.Layout) {
						if !selfConsistent(st.Graph, st.Opts, 6) {
							return skipped("C07")
						}
						return violated("C18/monitor-changes-layout", fmt.Sprintf("call %d: layout with monitor differs from layout without (%s)\n--- with\n%s--- without\n%s", si,
							diffClass(core.Canon(res.Layout), core.Canon(plain.Layout)), clip(core.Canon(res.Layout), 800), clip(core.Canon(plain.Layout), 800)))
					}
					layoutsCompared++
					// the extra run happened after `end`: give it its own interval without monitor
					calls = append(calls, interval{end, clock.Add(1), -1, false})
				} else if res.Panic != nil && st.Monitor >= 0 && st.LogBomb == 0 && len(st.Graph) > 0 && len(st.Graph[len(st.Graph)-1]) == 2 {
					// a good input that panics only with a monitor
					plain := core.Run(st.Graph, st.Opts)
					if plain.Panic == nil {
						return violated("C18/monitor-changes-outcome", fmt.Sprintf("call %d panics with a monitor (%s) but returns without", si, res.Panic.Msg))
					}
					calls = append(calls, interval{end, clock.Add(1), -1, true})
				}
			}
			// offline pass over the recorded history
			events := 0
			for id, m := range objs {
				for _, e := range m.events {
					events++
					ok := false
					for _, iv := range calls {
						if iv.mon == id && e.tick > iv.start && e.tick < iv.end {
							ok = true
							break
						}
					}
					if !ok {
						owner := "no call"
						for k, iv := range calls {
							if e.tick > iv.start && e.tick < iv.end {
								owner = fmt.Sprintf("call interval %d (monitor %d, panicked=%v)", k, iv.mon, iv.panicked)
							}
						}
						return violated("C18/foreign-event", fmt.Sprintf("monitor object %d received the event (phase %d, key %q) at tick %d, which lies in %s; its own calls: %v",
							id, e.phase, e.key, e.tick, owner, intervalsOf(calls, id)))
					}
				}
			}
			// the library's own channel monitor (every second history, on the first good graph of the history): once Layout
			// has returned nobody may still be trying to deliver an event
			chanCalls, chanEvents := 0, 0
			if c.Index%2 == 0 {
				for _, st := range c.History {
					if len(st.Graph) == 0 || len(st.Graph[len(st.Graph)-1]) != 2 {
						continue
					}
					received, late := chanMonitorLate(st.Graph, st.Opts)
					if late > 0 {
						return violated("C18/event-after-return/library-channel-monitor", fmt.Sprintf("the library's channel monitor (unbuffered channel, a consumer that yields between receives) delivered %d events during the call and %d after Layout had returned", received, late))
					}
					if !autog.VerifMonitorIdle() {
						return violated("C18/globals-not-idle", "after a call with the library's channel monitor the package-level monitor state is not idle")
					}
					chanCalls, chanEvents = 1, received
					break
				}
			}
			r := held()
			r.Nontrivial = ntShape
			r.stat("library_chan_monitor_calls", chanCalls)
			r.stat("library_chan_monitor_events", chanEvents)
			r.stat("events_checked", events)
			r.stat("panicking_calls_with_monitor", panMon)
			r.stat("reused_monitor_objects", reused)
			r.stat("layouts_compared", layoutsCompared)
			r.stat("calls", len(c.History))
			if wantSample {
				var script []string
				for _, st := range c.History {
					script = append(script, fmt.Sprintf("Layout(%d edges, %s, monitor=%d filter=%v bomb=%d)", len(st.Graph), st.Opts.Cell(), st.Monitor, st.Filter, st.LogBomb))
				}
				r.Sample = map[string]any{"index": c.Index, "history": script, "events": events}
			}
			return r
		},
	})
}

// chanMonitorLate lays out the graph once with the library's own channel monitor on an unbuffered channel. While the call
// runs a consumer goroutine receives the events and yields the processor between receives (a slow consumer only slows the
// call down: the monitor's send blocks). After Layout has returned the consumer is stopped and the channel is polled: with a
// blocking send nothing can arrive any more, because every send completed before Log - and so before Layout - returned;
// whatever arrives now was still being delivered after the call. No clock is involved.
func chanMonitorLate(edges [][]string, o core.Opts) (received, late int) {
	ch := make(chan any)
	done, fin := make(chan struct{}), make(chan struct{})
	go func() {
		defer close(fin)
		for {
			select {
			case <-ch:
				received++
				for i := 0; i < 20; i++ {
					runtime.Gosched()
				}
			case <-done:
				return
			}
		}
	}()
	o.Monitor = false
	core.Run(edges, o, autog.WithMonitor(autog.VerifChanMonitor(ch)))
	close(done)
	<-fin
	for i := 0; i < 3000; i++ {
		select {
		case <-ch:
			late++
		default:
			runtime.Gosched()
		}
	}
	return received, late
}

// interval is the logical-clock extent of one Layout call of a C18 history.
type interval struct {
	start, end int64
	mon        int
	panicked   bool
}

func intervalsOf(calls []interval, id int) string {
	s := ""
	for _, iv := range calls {
		if iv.mon == id {
			s += fmt.Sprintf("(%d,%d) ", iv.start, iv.end)
		}
	}
	return s
}
