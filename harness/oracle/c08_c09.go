package oracle

import (
	"fmt"
	"math/rand"
	"sort"
	"strings"

	"github.com/nulab/autog/graph"

	"verifharness/core"
	"verifharness/gen"
)

// selfConsistent re-runs a call n times and reports whether all results are identical (confirm-before-charging, DESIGN 1.3).
func selfConsistent(edges [][]string, o core.Opts, n int) bool {
	first := ""
	for i := 0; i < n; i++ {
		res := core.Run(edges, o)
		if res.Panic != nil {
			return false
		}
		enc := core.Canon(res.Layout)
		if i == 0 {
			first = enc
		} else if enc != first {
			return false
		}
	}
	return true
}

func renameEdges(edges [][]string, m map[string]string) [][]string {
	out := make([][]string, len(edges))
	for i, e := range edges {
		out[i] = make([]string, len(e))
		for j, id := range e {
			out[i][j] = m[id]
		}
	}
	return out
}

func renameOpts(o core.Opts, m map[string]string) core.Opts {
	if o.Sizes != nil {
		s := map[string][2]float64{}
		for k, v := range o.Sizes {
			if nk, ok := m[k]; ok {
				s[nk] = v
			} else {
				s[k] = v
			}
		}
		o.Sizes = s
	}
	return o
}

func renameLayout(l graph.Layout, m map[string]string) graph.Layout {
	out := graph.Layout{Nodes: make([]graph.Node, len(l.Nodes)), Edges: make([]graph.Edge, len(l.Edges))}
	mp := func(id string) string {
		if n, ok := m[id]; ok {
			return n
		}
		return id
	}
	for i, n := range l.Nodes {
		n.ID = mp(n.ID)
		out.Nodes[i] = n
	}
	for i, e := range l.Edges {
		e.FromID, e.ToID = mp(e.FromID), mp(e.ToID)
		out.Edges[i] = e
	}
	return out
}

// renamings builds the adversarial renamings of C08 for the given ids.
func renamings(r *rand.Rand, ids []string) []map[string]string {
	var out []map[string]string
	perm := func() []int { return r.Perm(len(ids)) }
	// 1. helper alphabet V1..Vk (the names autog mints for the helper nodes of long edges), in random assignment
	m := map[string]string{}
	for i, p := range perm() {
		m[ids[i]] = fmt.Sprintf("V%d", p+1)
	}
	out = append(out, m)
	// 2. auxiliary alphabet NE0..NEk (the names the network simplex positioner mints for edge nodes)
	m = map[string]string{}
	for i, p := range perm() {
		m[ids[i]] = fmt.Sprintf("NE%d", p)
	}
	out = append(out, m)
	// 3. a permutation of the same name set
	m = map[string]string{}
	for i, p := range perm() {
		m[ids[i]] = ids[p]
	}
	out = append(out, m)
	// 4. hostile strings: empty, very long, unicode, look-alikes; the rest random short
	hostile := []string{"", strings.Repeat("x", 10000), "节点-α→β", "N 1", "\x00", "V", "NE", "V01", "n1", "\"quoted\"", "a\nb"}
	r.Shuffle(len(hostile), func(i, j int) { hostile[i], hostile[j] = hostile[j], hostile[i] })
	m = map[string]string{}
	for i, id := range ids {
		if i < len(hostile) && r.Intn(3) > 0 {
			m[id] = hostile[i]
		} else {
			m[id] = fmt.Sprintf("r%d_%d", i, r.Intn(1000))
		}
	}
	out = append(out, m)
	// 5. mixed: some nodes keep their name, some take helper names that are likely to be minted (small numbers)
	m = map[string]string{}
	for i, id := range ids {
		switch r.Intn(3) {
		case 0:
			m[id] = id
		case 1:
			m[id] = fmt.Sprintf("V%d", i+1)
		default:
			m[id] = fmt.Sprintf("NE%d", i)
		}
	}
	out = append(out, m)
	// 6. names whose concatenations collide ("a"+"ab" == "aa"+"b"): catches keys built by gluing two ids together
	out = append(out, ambiguousNames(r, ids))
	// 7. look-alikes: distinct strings that coincide after a "harmless" normalisation (numeric value, surrounding blanks,
	// letter case, unicode composition): catches lookups that parse, trim or fold the ids
	out = append(out, lookAlikeNames(r, ids))
	return out
}

// lookAlikeNames maps ids injectively to strings drawn from small classes of look-alikes, so that several nodes of one
// graph (and, with a partial size map, a listed and an unlisted node) differ only by such a normalisation.
func lookAlikeNames(r *rand.Rand, ids []string) map[string]string {
	var classes [][]string
	for k := 0; k < 6; k++ {
		n := r.Intn(20)
		classes = append(classes, []string{fmt.Sprintf("%d", n), fmt.Sprintf("0%d", n), fmt.Sprintf("+%d", n), fmt.Sprintf("00%d", n), fmt.Sprintf("%d.0", n), fmt.Sprintf("-%d", n)})
		w := fmt.Sprintf("w%c", 'a'+r.Intn(26))
		classes = append(classes, []string{w, w + " ", " " + w, w + "\n", "\t" + w, w + "\r\n", " " + w + " "})
		c := fmt.Sprintf("Node%c", 'a'+r.Intn(26))
		classes = append(classes, []string{c, strings.ToLower(c), strings.ToUpper(c), c + "_", c + "/", "./" + c})
	}
	classes = append(classes, []string{"\u00e9", "e\u0301", "E\u0301", "\u00c9"})
	r.Shuffle(len(classes), func(i, j int) { classes[i], classes[j] = classes[j], classes[i] })
	var pool []string
	seen := map[string]bool{}
	for _, cl := range classes {
		r.Shuffle(len(cl), func(i, j int) { cl[i], cl[j] = cl[j], cl[i] })
		for _, s := range cl[:2+r.Intn(len(cl)-1)] {
			if !seen[s] {
				seen[s] = true
				pool = append(pool, s)
			}
		}
	}
	m := map[string]string{}
	for i, p := range r.Perm(len(ids)) {
		if i < len(pool) {
			m[ids[p]] = pool[i]
		} else {
			m[ids[p]] = fmt.Sprintf("q%d", i)
		}
	}
	return m
}

// ambiguousNames maps ids injectively to strings over {a,b} of length 1..4 (30 strings; more ids get a numeric suffix).
func ambiguousNames(r *rand.Rand, ids []string) map[string]string {
	var pool []string
	for l := 1; l <= 4; l++ {
		for k := 0; k < 1<<l; k++ {
			b := make([]byte, l)
			for i := range b {
				b[i] = "ab"[(k>>i)&1]
			}
			pool = append(pool, string(b))
		}
	}
	r.Shuffle(len(pool), func(i, j int) { pool[i], pool[j] = pool[j], pool[i] })
	m := map[string]string{}
	for i, id := range ids {
		if i < len(pool) {
			m[id] = pool[i]
		} else {
			m[id] = fmt.Sprintf("%s%d", pool[i%len(pool)], i)
		}
	}
	return m
}

func init() {
	register(&Property{
		ID:     "C08",
		Title:  "Node IDs are opaque",
		Count:  counts(4000, 50000),
		Budget: 240, // a case makes 11-25 calls (two base runs, 7 renamings, self-consistency runs); with the network simplex positioner on dense multigraphs that is 50 s of CPU alone
		Rule: "graphs with long edges (F9, F1, F3, F11) x all cells except greedy-random (network simplex positioner over-sampled) x 7 injective renamings per case: V1..Vk and NE0..NEk (the helper " +
			"alphabets autog mints itself), a permutation of the same names, hostile strings (empty, 10 kB, unicode, control characters), mixed, strings over {a,b} whose concatenations collide, look-alikes (numeric spellings of one value, surrounding blanks, letter case, unicode composition); oracle: Layout(rename(G)) must equal " +
			"rename(Layout(G)) byte for byte, size-map keys renamed too; mismatches are charged only if both sides are self-consistent; " +
			"non-trivial = the layout contains a helper node (long edge) or uses the network simplex positioner",
		MinNontrivial: counts(1000, 12000),
		Required:      []string{"positioner:ns", "helper_nodes_seen", "renamings_compared"},
		Gen: func(seed int64, tier string, idx int) *core.Case {
			r := rng("C08", seed, tier, idx)
			c := &core.Case{Prop: "C08", Tier: tier, Seed: seed, Index: idx}
			switch r.Intn(4) {
			case 0, 1:
				g := gen.Skip(r, 3+r.Intn(4), 1, 3, 0.4, 1+r.Intn(4), 2+r.Intn(3))
				c.Family, c.Edges = g.Family, gen.Names(g)
			default:
				g := gen.Mixed(r, 10)
				c.Family, c.Edges = g.Family, gen.Names(g)
			}
			ids := nodeIDs(c.Edges)
			o := fastCell(r, len(ids), true)
			if idx%3 == 0 && len(ids) <= 12 {
				o.Positioner = 3
			}
			c.Regime = "dyadic"
			if o.Positioner == 3 {
				c.Regime = "integer"
			}
			applySizes(r, &o, ids, []int{sizeNone, sizeFixed, sizeMapAll, sizeMapSome, sizeMapSomeFixed}[r.Intn(5)], c.Regime, 40)
			o.NodeSpacing = spacingVal(r, c.Regime, true)
			o.LayerSpacing = spacingVal(r, c.Regime, true)
			o.Virtual = r.Intn(2) == 0
			capNS(&o)
			c.Opts = o
			c.Renames = renamings(r, ids)
			return c
		},
		Check: func(c *core.Case, wantSample bool) Result {
			base := core.Run(c.Edges, c.Opts)
			if base.Panic != nil {
				return noReturn(base.Panic)
			}
			base2 := core.Run(c.Edges, c.Opts)
			if base2.Panic != nil || core.Canon(base2.Layout) != core.Canon(base.Layout) {
				r := skipped("C07")
				r.Notes = []string{fmt.Sprintf("C08 case %d: base run not reproducible, attributed to C07", c.Index)}
				return r
			}
			ids := nodeIDs(c.Edges)
			helpers := len(core.Run(c.Edges, withVirtual(c.Opts)).Layout.Nodes) - len(ids)
			compared := 0
			for ri, m := range c.Renames {
				redges := renameEdges(c.Edges, m)
				ropts := renameOpts(c.Opts, m)
				got := core.Run(redges, ropts)
				want := core.Canon(renameLayout(base.Layout, m))
				kind := []string{"V-alphabet", "NE-alphabet", "permutation", "hostile-strings", "mixed", "ambiguous-concatenation", "look-alikes"}[ri%7]
				if got.Panic != nil {
					if !selfConsistent(c.Edges, c.Opts, 4) {
						return skipped("C07")
					}
					return violated("C08/panic-after-rename/"+kind+"/"+core.PositionerNames[c.Opts.Positioner],
						fmt.Sprintf("Layout returns for the neutral names but panics after renaming %v: %s in %s", compactMap(m), got.Panic.Msg, got.Panic.Func))
				}
				if core.Canon(got.Layout) != want {
					if !selfConsistent(c.Edges, c.Opts, 6) || !selfConsistent(redges, ropts, 6) {
						r := skipped("C07")
						r.Notes = []string{fmt.Sprintf("C08 case %d: mismatch after renaming, but one side is not reproducible: attributed to C07", c.Index)}
						return r
					}
					return violated("C08/layout-depends-on-names/"+kind+"/"+core.PositionerNames[c.Opts.Positioner],
						fmt.Sprintf("renaming %v changes the layout (%s):\n--- expected (renamed base layout)\n%s--- got\n%s", compactMap(m), diffClass(want, core.Canon(got.Layout)), clip(want, 1200), clip(core.Canon(got.Layout), 1200)))
				}
				compared++
			}
			r := held()
			r.Nontrivial = helpers > 0 || c.Opts.Positioner == 3
			r.stat("positioner:"+core.PositionerNames[c.Opts.Positioner], 1)
			if helpers > 0 {
				r.stat("helper_nodes_seen", 1)
			}
			r.stat("renamings_compared", compared)
			if wantSample {
				r.Sample = layoutSample(c, base.Layout, map[string]any{"renamings": len(c.Renames), "first_renaming": compactMap(c.Renames[0])})
			}
			return r
		},
	})
}

func withVirtual(o core.Opts) core.Opts {
	o.Virtual = true
	return o
}

func clip(s string, n int) string {
	if len(s) > n {
		return s[:n] + "…\n"
	}
	return s
}

func compactMap(m map[string]string) string {
	ks := sortedKeys(m)
	var parts []string
	for _, k := range ks {
		v := m[k]
		if len(v) > 24 {
			v = v[:24] + fmt.Sprintf("…(%d bytes)", len(m[k]))
		}
		parts = append(parts, fmt.Sprintf("%s=>%q", k, v))
	}
	return "{" + strings.Join(parts, " ") + "}"
}

// ---------------------------------------------------------------------------------------------------------------- C09

func unionCase(r *rand.Rand) (string, [][]string) {
	k := 2 + r.Intn(5)
	var parts []gen.IG
	for i := 0; i < k; i++ {
		switch r.Intn(8) {
		case 0:
			parts = append(parts, gen.IG{N: 1, E: [][2]int{{0, 0}}, Family: "selfloop-node"})
		case 1:
			parts = append(parts, gen.Digraph(r, 2+r.Intn(6), 1+r.Intn(10)))
		case 2:
			parts = append(parts, gen.Tree(r, 2+r.Intn(7), r.Intn(2) == 0))
		case 3:
			parts = append(parts, gen.SelfLoops(r, gen.Multi(r, gen.DAG(r, 2+r.Intn(6), 0.5), 0.3, 0.2), r.Intn(2)))
		case 4:
			parts = append(parts, gen.Skip(r, 3+r.Intn(3), 1, 3, 0.4, 1+r.Intn(3), 2+r.Intn(2)))
		case 5:
			// a dense cyclic part: needs many pivots, so it is the part that meets the iteration budget first
			m := 9 + r.Intn(6)
			parts = append(parts, gen.Connect(r, gen.Digraph(r, m, m+m/2+r.Intn(m)), false))
		default:
			parts = append(parts, gen.DAG(r, 2+r.Intn(8), 0.4))
		}
	}
	g, _ := gen.Union(r, parts)
	return g.Family, gen.Names(g)
}

func init() {
	register(&Property{
		ID:    "C09",
		Title: "Components independent, side by side",
		Count: counts(5000, 60000),
		Rule: "disjoint unions of 2-6 parts (DAGs, digraphs, trees, multigraphs with self loops, single self-looped nodes, layered graphs with long edges), edge lists interleaved by a random merge that " +
			"keeps each part's order, x all cells except greedy-random; oracle: for every component i, Layout(union) restricted to i equals Layout(sub-list of i) up to one horizontal translation " +
			"(same node and edge order, sizes, flags, Y, points); with size-aware positioners the x-extents of any two components are disjoint and >= NodeSpacing apart; " +
			"non-trivial = >= 3 components of which >= 2 have >= 3 nodes",
		MinNontrivial: counts(1200, 15000),
		Required:      []string{"components_compared", "single_node_components", "size_aware_unions"},
		Gen: func(seed int64, tier string, idx int) *core.Case {
			r := rng("C09", seed, tier, idx)
			c := &core.Case{Prop: "C09", Tier: tier, Seed: seed, Index: idx}
			c.Family, c.Edges = unionCase(r)
			budget := r.Intn(4) == 0
			if budget {
				// budget-sensitive unions: a low thoroughness, one part of 10-15 nodes that needs several pivots (its own budget
				// is thoroughness*3) and fillers that lift the total past 16 nodes: a budget taken from the whole input differs
				var parts []gen.IG
				n := 10 + r.Intn(6)
				switch r.Intn(3) {
				case 0:
					parts = append(parts, gen.Slack(r))
				case 1:
					parts = append(parts, gen.Connect(r, gen.DAG(r, n, 0.3+0.2*r.Float64()), true))
				default:
					parts = append(parts, gen.Connect(r, gen.Digraph(r, n, 2*n+r.Intn(n)), false))
				}
				for total := parts[0].N; total < 17+r.Intn(10); {
					f := gen.DAG(r, 2+r.Intn(4), 0.6)
					parts = append(parts, f)
					total += f.N
				}
				r.Shuffle(len(parts), func(i, j int) { parts[i], parts[j] = parts[j], parts[i] })
				g, _ := gen.Union(r, parts)
				c.Family, c.Edges = "F5-union(budget-sensitive)", gen.Names(g)
			}
			ids := nodeIDs(c.Edges)
			o := fastCell(r, 6, true) // parts are small, the slow positioner is affordable
			if budget {
				o.Layerer = 0
				if o.Positioner == 3 {
					o.Positioner = 0
				}
			}
			if o.Positioner == 3 {
				sizes := map[int]int{}
				vv := newView(c.Edges, o, graph.Layout{}, true)
				for _, id := range ids {
					sizes[vv.comp[id]]++
				}
				for _, n := range sizes {
					if n > 10 {
						o.Positioner = 0 // ... unless a part is big
					}
				}
			}
			c.Regime = pickRegime(r)
			if o.Positioner == 3 && r.Intn(2) == 0 {
				// the positioner works on an integer grid; the clauses of this property (same layout alone and in the union,
				// components NodeSpacing apart) do not depend on that, so half of its cases keep fractional sizes
				c.Regime = "integer"
			}
			if r.Intn(4) > 0 {
				heteroSizes(r, &o, ids, c.Regime, 60, 0.08)
			} else {
				applySizes(r, &o, ids, r.Intn(sizeModes), c.Regime, 60)
			}
			o.NodeSpacing = spacingVal(r, c.Regime, true)
			o.LayerSpacing = spacingVal(r, c.Regime, true)
			switch r.Intn(6) {
			case 0:
				o.Thoroughness = uptr(1)
			case 1:
				o.Thoroughness = uptr(uint(2 + r.Intn(3)))
			}
			if budget {
				o.Thoroughness = uptr(uint(1 + r.Intn(2)))
			}
			capNS(&o)
			c.Opts = o
			return c
		},
		Check: func(c *core.Case, wantSample bool) Result {
			whole := core.Run(c.Edges, c.Opts)
			if whole.Panic != nil {
				// independence also means: if every component can be laid out alone, so can the union
				vv := newView(c.Edges, c.Opts, graph.Layout{}, true)
				for ci := 0; ci < vv.ncomp; ci++ {
					var sub [][]string
					for _, e := range c.Edges {
						if vv.comp[e[0]] == ci {
							sub = append(sub, e)
						}
					}
					if core.Run(sub, c.Opts).Panic != nil {
						return noReturn(whole.Panic)
					}
				}
				return violated("C09/union-panics-parts-return", fmt.Sprintf("every one of the %d components is laid out when given alone, but the union panics: %s in %s", vv.ncomp, whole.Panic.Msg, whole.Panic.Func))
			}
			if again := core.Run(c.Edges, c.Opts); again.Panic != nil || core.Canon(again.Layout) != core.Canon(whole.Layout) {
				r := skipped("C07")
				r.Notes = []string{fmt.Sprintf("C09 case %d: union layout not reproducible, attributed to C07", c.Index)}
				return r
			}
			v := newView(c.Edges, c.Opts, whole.Layout, c.Regime != "decimal")
			if !v.allPresent() || len(whole.Layout.Nodes) != len(v.ids) || len(whole.Layout.Edges) != len(c.Edges) {
				return skipped("C02")
			}
			edgeComp := func(e graph.Edge) int { return v.comp[e.FromID] }
			compSizes := make([]int, v.ncomp)
			for _, id := range v.ids {
				compSizes[v.comp[id]]++
			}
			type ext struct{ lo, hi float64 }
			exts := make([]ext, v.ncomp)
			for ci := 0; ci < v.ncomp; ci++ {
				var sub [][]string
				for _, e := range c.Edges {
					if v.comp[e[0]] == ci {
						sub = append(sub, e)
					}
				}
				sole := core.Run(sub, c.Opts)
				if sole.Panic != nil {
					return noReturn(sole.Panic)
				}
				// restriction of the union layout to component ci, in output order
				var ns []graph.Node
				for _, n := range whole.Layout.Nodes {
					if v.comp[n.ID] == ci {
						ns = append(ns, n)
					}
				}
				var es []graph.Edge
				for _, e := range whole.Layout.Edges {
					if edgeComp(e) == ci {
						es = append(es, e)
					}
				}
				num := v.num
				if c.Opts.Router == 3 {
					// spline control points are not dyadic numbers: adding the component shift rounds
					num.exact = false
				}
				if msg := compareTranslated(num, ns, es, sole.Layout); msg != "" {
					if !selfConsistent(sub, c.Opts, 6) || !selfConsistent(c.Edges, c.Opts, 6) {
						return skipped("C07")
					}
					return violated("C09/component-differs/"+classify09(msg), fmt.Sprintf("component %d (edges %v): %s\n--- inside the union\n%s--- alone\n%s",
						ci, sub, msg, clip(core.Canon(graph.Layout{Nodes: ns, Edges: es}), 1000), clip(core.Canon(sole.Layout), 1000)))
				}
				lo, hi := ns[0].X, ns[0].X+ns[0].W
				for _, n := range ns {
					lo, hi = min(lo, n.X), max(hi, n.X+n.W)
				}
				exts[ci] = ext{lo, hi}
			}
			// the network simplex positioner works on an integer grid (C04 states its contract for integer sizes and spacing):
			// with fractional sizes it rounds the distance between neighbours, a helper node that is last in its layer can
			// end left of the right side of its real neighbour, and the shift of the next component is taken from that
			// helper node. The side-by-side clause is therefore judged for this positioner with integer inputs only.
			if c.Opts.SizeAware() && !(c.Opts.Positioner == 3 && c.Regime != "integer") {
				order := make([]int, v.ncomp)
				for i := range order {
					order[i] = i
				}
				sort.Slice(order, func(a, b int) bool { return exts[order[a]].lo < exts[order[b]].lo })
				for k := 1; k < len(order); k++ {
					a, b := exts[order[k-1]], exts[order[k]]
					if !v.num.ge(b.lo-a.hi, c.Opts.NodeSpacingValue()) {
						return violated("C09/components-too-close/"+core.PositionerNames[c.Opts.Positioner], fmt.Sprintf("component %d spans x in [%v,%v], component %d spans [%v,%v]: %v apart, NodeSpacing %v",
							order[k-1], a.lo, a.hi, order[k], b.lo, b.hi, b.lo-a.hi, c.Opts.NodeSpacingValue()))
					}
				}
			}
			r := held()
			big := 0
			for _, s := range compSizes {
				if s >= 3 {
					big++
				}
				if s == 1 {
					r.stat("single_node_components", 1)
				}
			}
			r.Nontrivial = v.ncomp >= 3 && big >= 2
			r.stat("components_compared", v.ncomp)
			if c.Opts.SizeAware() {
				r.stat("size_aware_unions", 1)
			}
			if wantSample {
				r.Sample = layoutSample(c, whole.Layout, map[string]any{"components": v.ncomp})
			}
			return r
		},
	})
}

func classify09(msg string) string {
	switch {
	case strings.HasPrefix(msg, "node order"), strings.HasPrefix(msg, "node count"):
		return "node-order"
	case strings.HasPrefix(msg, "edge order"), strings.HasPrefix(msg, "edge count"):
		return "edge-order"
	case strings.HasPrefix(msg, "node"):
		return "node-geometry"
	default:
		return "edge-geometry"
	}
}

// compareTranslated checks that (ns, es) equals the layout l up to one horizontal translation. It returns "" or a description.
func compareTranslated(num numeric, ns []graph.Node, es []graph.Edge, l graph.Layout) string {
	if len(ns) != len(l.Nodes) {
		return fmt.Sprintf("node count %d vs %d", len(ns), len(l.Nodes))
	}
	if len(es) != len(l.Edges) {
		return fmt.Sprintf("edge count %d vs %d", len(es), len(l.Edges))
	}
	if len(ns) == 0 {
		return ""
	}
	dx := ns[0].X - l.Nodes[0].X
	for i := range ns {
		a, b := ns[i], l.Nodes[i]
		if a.ID != b.ID {
			return fmt.Sprintf("node order differs at position %d: %s vs %s", i, a.ID, b.ID)
		}
		if a.W != b.W || a.H != b.H || !num.eq(a.Y, b.Y) {
			return fmt.Sprintf("node %s differs: %s vs %s", a.ID, fmtNode(a), fmtNode(b))
		}
		if !num.eq(a.X-b.X, dx) {
			return fmt.Sprintf("node %s is translated by %v, node %s by %v", a.ID, a.X-b.X, ns[0].ID, dx)
		}
	}
	for i := range es {
		a, b := es[i], l.Edges[i]
		if a.FromID != b.FromID || a.ToID != b.ToID {
			return fmt.Sprintf("edge order differs at position %d: %s->%s vs %s->%s", i, a.FromID, a.ToID, b.FromID, b.ToID)
		}
		if a.ArrowHeadStart != b.ArrowHeadStart || len(a.Points) != len(b.Points) {
			return fmt.Sprintf("route of %s->%s differs: %s vs %s", a.FromID, a.ToID, fmtEdge(a), fmtEdge(b))
		}
		for k := range a.Points {
			if !num.eq(a.Points[k][1], b.Points[k][1]) || !num.eq(a.Points[k][0]-b.Points[k][0], dx) {
				return fmt.Sprintf("route of %s->%s differs beyond the translation %v at point %d: %v vs %v", a.FromID, a.ToID, dx, k, a.Points[k], b.Points[k])
			}
		}
	}
	return ""
}
