package core

import (
	"fmt"
	"strings"

	"github.com/nulab/autog"
	"github.com/nulab/autog/graph"
)

// Diagnose re-runs the case with the AfterPhase hook (H3) installed and names the first pipeline phase whose documented
// post-condition does not hold. It is a diagnostic for violation reports only and never decides a verdict.
// DiagStream, when set, receives every diagnosis note immediately (useful when the run then dies with a fatal error).
var DiagStream func(string)

func Diagnose(edges [][]string, o Opts) string {
	var notes []string
	comp := 0
	lastPhase := 0
	autog.VerifSetAfterPhase(func(s autog.VerifSnapshot) {
		if s.Phase <= lastPhase {
			comp++
		}
		lastPhase = s.Phase
		if len(notes) > 6 {
			return
		}
		if msg := checkSnapshot(s); msg != "" {
			notes = append(notes, fmt.Sprintf("component#%d after phase %d: %s", comp, s.Phase, msg))
			if DiagStream != nil {
				DiagStream(notes[len(notes)-1])
			}
		}
	})
	defer autog.VerifSetAfterPhase(nil)
	func() {
		defer func() { recover() }()
		if o.Breaker == 1 {
			seed := o.GreedySeed
			autog.VerifSetGreedySeed(func() (int64, bool) { return seed, true })
			defer autog.VerifSetGreedySeed(nil)
		}
		autog.Layout(graph.EdgeSlice(edges), o.Options()...)
	}()
	if len(notes) == 0 {
		return "phase diagnosis: all observed phase post-conditions held up to the failure"
	}
	return "phase diagnosis: " + strings.Join(notes, "; ")
}

func checkSnapshot(s autog.VerifSnapshot) string {
	n := len(s.Nodes)
	switch {
	case s.Phase == 1:
		// acyclic (self loops are stripped before the pipeline)
		indeg := make([]int, n)
		out := make([][]int, n)
		for _, e := range s.Edges {
			if e.From < 0 || e.To < 0 {
				return "edge endpoint outside the node list"
			}
			if e.From == e.To {
				continue
			}
			out[e.From] = append(out[e.From], e.To)
			indeg[e.To]++
		}
		var q []int
		for v := 0; v < n; v++ {
			if indeg[v] == 0 {
				q = append(q, v)
			}
		}
		seen := 0
		for len(q) > 0 {
			v := q[len(q)-1]
			q = q[:len(q)-1]
			seen++
			for _, w := range out[v] {
				indeg[w]--
				if indeg[w] == 0 {
					q = append(q, w)
				}
			}
		}
		if seen != n {
			return "graph still cyclic"
		}
	case s.Phase == 2:
		for _, e := range s.Edges {
			if e.From == e.To {
				continue
			}
			if s.Nodes[e.To].Layer-s.Nodes[e.From].Layer < 1 {
				return fmt.Sprintf("infeasible layering: edge %s(layer %d) -> %s(layer %d)", s.Nodes[e.From].ID, s.Nodes[e.From].Layer, s.Nodes[e.To].ID, s.Nodes[e.To].Layer)
			}
		}
		for _, nd := range s.Nodes {
			if nd.Layer < 0 || nd.Layer >= len(s.Layers) {
				return fmt.Sprintf("node %s has layer %d outside [0,%d)", nd.ID, nd.Layer, len(s.Layers))
			}
		}
	case s.Phase == 3:
		for _, e := range s.Edges {
			if e.From == e.To {
				continue
			}
			if d := s.Nodes[e.To].Layer - s.Nodes[e.From].Layer; d != 1 {
				return fmt.Sprintf("layering not proper: edge %s -> %s spans %d", s.Nodes[e.From].ID, s.Nodes[e.To].ID, d)
			}
		}
		for li, l := range s.Layers {
			for pos, ni := range l {
				if ni < 0 {
					return "layer holds a node outside the node list"
				}
				if s.Nodes[ni].LayerPos != pos || s.Nodes[ni].Layer != li {
					return fmt.Sprintf("layer %d position %d holds %s with Layer=%d LayerPos=%d", li, pos, s.Nodes[ni].ID, s.Nodes[ni].Layer, s.Nodes[ni].LayerPos)
				}
			}
		}
	case s.Phase == 4:
		for li, l := range s.Layers {
			for pos := 1; pos < len(l); pos++ {
				a, b := s.Nodes[l[pos-1]], s.Nodes[l[pos]]
				if !(a.X <= b.X) {
					return fmt.Sprintf("x not monotone in layer %d: %s x=%v then %s x=%v", li, a.ID, a.X, b.ID, b.X)
				}
			}
		}
	}
	return ""
}
