// Package core defines the case format shared by driver, worker and replay, and the single place where
// the real autog.Layout is invoked (Run).
package core

import (
	"fmt"
	"math"
	"math/rand"
	"regexp"
	"runtime/debug"
	"strconv"
	"strings"
	"sync/atomic"

	"github.com/nulab/autog"
	"github.com/nulab/autog/graph"
)

// Opts is one point of the option grid. It is plain data so that it can be stored in replay files.
type Opts struct {
	Breaker    int   `json:"breaker"`     // 0 greedy, 1 greedy-random (seeded through hook H1), 2 depth-first
	GreedySeed int64 `json:"greedy_seed"` // seed used when Breaker == 1
	Layerer    int   `json:"layerer"`     // 0 network simplex, 1 longest path
	Positioner int   `json:"positioner"`  // 0 sink colouring, 1 valign, 2 pack right, 3 network simplex, 4 B&K, 5..8 B&K forced 0..3
	Router     int   `json:"router"`      // 0 polyline, 1 straight, 2 ortho, 3 splines, 4 noop
	Explicit   bool  `json:"explicit"`    // pass algorithm options even where they equal the default
	NoOrdering bool  `json:"no_ordering"` // pass WithOrdering(OrderingNoop) (documented no-op phase 3; used by C16 only)
	Monitor    bool  `json:"monitor"`     // attach a passive recording monitor (supplying one must not change anything)
	RandomFlag bool  `json:"random_flag"` // with Breaker == 2: also pass WithNonDeterministicGreedyCycleBreaker(), which only concerns the greedy breaker

	HasFixed bool                  `json:"has_fixed"`
	FixedW   float64               `json:"fixed_w"`
	FixedH   float64               `json:"fixed_h"`
	Sizes    map[string][2]float64 `json:"sizes,omitempty"` // nil: WithNodeSize not passed. W,H per node id
	// SizeXY gives the X,Y fields of some size-map entries arbitrary values (graph.Size has them; a caller who fills the
	// map from an earlier layout passes them). A size is a width and a height: the coordinates must be ignored.
	SizeXY map[string][2]float64 `json:"size_xy,omitempty"`
	// SizeMap, when set, is the very map handed to WithNodeSize (instead of one built from Sizes and SizeXY), so that a
	// check can compare it with a copy after the call.
	SizeMap map[string]graph.Size `json:"-"`
	// Shuffle != 0 permutes the option list (the options set independent fields; their order must not matter).
	Shuffle int64 `json:"shuffle,omitempty"`

	NodeSpacing  *float64 `json:"node_spacing,omitempty"`
	LayerSpacing *float64 `json:"layer_spacing,omitempty"`
	Thoroughness *uint    `json:"thoroughness,omitempty"`
	Virtual      bool     `json:"virtual"`
	VirtualSet   bool     `json:"virtual_set"` // pass WithOutputVirtualNodes(Virtual) explicitly
}

var (
	BreakerNames    = []string{"greedy", "greedy-random", "dfs"}
	LayererNames    = []string{"ns", "lp"}
	PositionerNames = []string{"sink", "valign", "packright", "ns", "bk", "bk0", "bk1", "bk2", "bk3"}
	RouterNames     = []string{"polyline", "straight", "ortho", "splines", "noop"}
)

// Cell names the algorithm combination.
func (o Opts) Cell() string {
	return BreakerNames[o.Breaker] + "/" + LayererNames[o.Layerer] + "/" + PositionerNames[o.Positioner] + "/" + RouterNames[o.Router]
}

// SizeAware reports whether the positioner honours node sizes (everything but Brandes-Koepf).
func (o Opts) SizeAware() bool { return o.Positioner <= 3 }

// NodeSpacingValue returns the effective node spacing (default 60).
func (o Opts) NodeSpacingValue() float64 {
	if o.NodeSpacing != nil {
		return *o.NodeSpacing
	}
	return 60
}

// LayerSpacingValue returns the effective layer spacing (default 150).
func (o Opts) LayerSpacingValue() float64 {
	if o.LayerSpacing != nil {
		return *o.LayerSpacing
	}
	return 150
}

// ExpectedSize is the size contract of C02: per-node entry if listed, otherwise the fixed size, otherwise zero.
func (o Opts) ExpectedSize(id string) (w, h float64) {
	if o.Sizes != nil {
		if s, ok := o.Sizes[id]; ok {
			return s[0], s[1]
		}
	}
	if o.HasFixed {
		return o.FixedW, o.FixedH
	}
	return 0, 0
}

// Options converts the plain data to autog options.
func (o Opts) Options() []autog.Option {
	var os []autog.Option
	switch o.Breaker {
	case 0:
		if o.Explicit {
			os = append(os, autog.WithCycleBreaking(autog.CycleBreakingGreedy))
		}
	case 1:
		os = append(os, autog.WithNonDeterministicGreedyCycleBreaker())
		if o.Explicit {
			os = append(os, autog.WithCycleBreaking(autog.CycleBreakingGreedy))
		}
	case 2:
		if o.RandomFlag && o.Explicit {
			os = append(os, autog.WithNonDeterministicGreedyCycleBreaker())
		}
		os = append(os, autog.WithCycleBreaking(autog.CycleBreakingDepthFirst))
		if o.RandomFlag && !o.Explicit {
			os = append(os, autog.WithNonDeterministicGreedyCycleBreaker())
		}
	}
	switch o.Layerer {
	case 0:
		if o.Explicit {
			os = append(os, autog.WithLayering(autog.LayeringNetworkSimplex))
		}
	case 1:
		os = append(os, autog.WithLayering(autog.LayeringLongestPath))
	}
	if o.NoOrdering {
		os = append(os, autog.WithOrdering(autog.OrderingNoop))
	} else if o.Explicit {
		os = append(os, autog.WithOrdering(autog.OrderingWMedian))
	}
	switch {
	case o.Positioner == 0:
		if o.Explicit {
			os = append(os, autog.WithPositioning(autog.PositioningSinkColoring))
		}
	case o.Positioner == 1:
		os = append(os, autog.WithPositioning(autog.PositioningVAlign))
	case o.Positioner == 2:
		os = append(os, autog.WithPositioning(autog.PositioningPackRight))
	case o.Positioner == 3:
		os = append(os, autog.WithPositioning(autog.PositioningNetworkSimplex))
	case o.Positioner == 4:
		os = append(os, autog.WithPositioning(autog.PositioningBrandesKoepf))
	default:
		os = append(os, autog.WithPositioning(autog.PositioningBrandesKoepf), autog.WithBrandesKoepfLayout(o.Positioner-5))
	}
	switch o.Router {
	case 0:
		if o.Explicit {
			os = append(os, autog.WithEdgeRouting(autog.EdgeRoutingPolyline))
		}
	case 1:
		os = append(os, autog.WithEdgeRouting(autog.EdgeRoutingStraight))
	case 2:
		os = append(os, autog.WithEdgeRouting(autog.EdgeRoutingOrtho))
	case 3:
		os = append(os, autog.WithEdgeRouting(autog.EdgeRoutingSplines))
	case 4:
		os = append(os, autog.WithEdgeRouting(autog.EdgeRoutingNoop))
	}
	if o.HasFixed {
		os = append(os, autog.WithNodeFixedSize(o.FixedW, o.FixedH))
	}
	if o.SizeMap != nil {
		os = append(os, autog.WithNodeSize(o.SizeMap))
	} else if o.Sizes != nil {
		os = append(os, autog.WithNodeSize(o.BuildSizeMap()))
	}
	if o.NodeSpacing != nil {
		os = append(os, autog.WithNodeSpacing(*o.NodeSpacing))
	}
	if o.LayerSpacing != nil {
		os = append(os, autog.WithLayerSpacing(*o.LayerSpacing))
	}
	if o.Thoroughness != nil {
		os = append(os, autog.WithNetworkSimplexThoroughness(*o.Thoroughness))
	}
	if o.VirtualSet || o.Virtual {
		os = append(os, autog.WithOutputVirtualNodes(o.Virtual))
	}
	if o.Shuffle != 0 {
		rand.New(rand.NewSource(o.Shuffle)).Shuffle(len(os), func(i, j int) { os[i], os[j] = os[j], os[i] })
	}
	return os
}

// BuildSizeMap returns a fresh map for WithNodeSize (nil if the option is not passed).
func (o Opts) BuildSizeMap() map[string]graph.Size {
	if o.Sizes == nil {
		return nil
	}
	m := make(map[string]graph.Size, len(o.Sizes))
	for k, v := range o.Sizes {
		xy := o.SizeXY[k]
		m[k] = graph.Size{X: xy[0], Y: xy[1], W: v[0], H: v[1]}
	}
	return m
}

// Case is one fully determined unit of work of a property check. Replay files are serialised Cases.
type Case struct {
	Prop   string     `json:"prop"`
	Tier   string     `json:"tier"`
	Seed   int64      `json:"seed"`
	Index  int        `json:"index"`
	Family string     `json:"family"`
	Regime string     `json:"regime,omitempty"` // dyadic | decimal | integer
	Edges  [][]string `json:"edges,omitempty"`
	Opts   Opts       `json:"opts"`

	// property specific payloads
	Renames  []map[string]string `json:"renames,omitempty"`  // C08
	Scales   []int               `json:"scales,omitempty"`   // C17: exponents k of 2^k
	History  []Step              `json:"history,omitempty"`  // C18
	Corridor *Corridor           `json:"corridor,omitempty"` // C19, C20
	Poly     *Poly               `json:"poly,omitempty"`     // C20
	Conc     *Conc               `json:"conc,omitempty"`     // C15
	Note     string              `json:"note,omitempty"`
}

// Step is one call of a C18 history.
type Step struct {
	Graph   [][]string `json:"graph"`   // may be empty or malformed on purpose
	Opts    Opts       `json:"opts"`    //
	Monitor int        `json:"monitor"` // -1: no monitor; k >= 0: recording monitor object number k (objects may be reused by later steps)
	Filter  bool       `json:"filter"`  // wrap in a filter that only lets phase 3 through
	LogBomb int        `json:"logbomb"` // > 0: the monitor panics on its n-th event
}

// Corridor is a C19/C20 input: rectangles {left, top, right, bottom}, start in the first and end in the last rectangle.
type Corridor struct {
	Rects [][4]float64 `json:"rects"`
	Start [2]float64   `json:"start"`
	End   [2]float64   `json:"end"`
	Kind  string       `json:"kind"`
}

// Poly is a C20 root-finder input: coefficients in increasing order of degree and the roots it was built from.
type Poly struct {
	Coeff []float64 `json:"coeff"`
	Roots []float64 `json:"roots"` // the real roots used for the construction (with multiplicity)
	Kind  string    `json:"kind"`
}

// Conc is a C15 batch: a number of goroutines issuing calls on independent inputs.
type Conc struct {
	Goroutines int            `json:"goroutines"`
	Procs      int            `json:"procs"`
	Rounds     int            `json:"rounds"`
	Preamble   int            `json:"preamble"` // call made before the concurrent phase: 0 none, 1 monitored call that returns, 2 monitored call on the empty graph (panics), 3 monitored call on a malformed edge (panics)
	Inputs     []ConcInput    `json:"inputs"`
	Extra      map[string]any `json:"extra,omitempty"`
}

// ConcInput is one independent input of a C15 batch.
type ConcInput struct {
	Edges [][]string `json:"edges"`
	Opts  Opts       `json:"opts"`
}

// PanicInfo describes a recovered panic of autog.Layout.
type PanicInfo struct {
	Msg   string `json:"msg"`
	Class string `json:"class"` // message with numbers and quoted parts removed
	Func  string `json:"func"`  // innermost autog function on the panicking stack
	Stack string `json:"stack,omitempty"`
}

// Event is one monitor event.
type Event struct {
	Phase int
	Alg   string
	Key   string
	Val   any
}

// Recorder is a monitor that records events (any type with this Log method satisfies autog's Monitor interface).
type Recorder struct {
	Events []Event
	OnLog  func(e Event)
}

func (r *Recorder) Log(phase int, alg, key string, val any) {
	e := Event{phase, alg, key, val}
	r.Events = append(r.Events, e)
	if r.OnLog != nil {
		r.OnLog(e)
	}
}

// Evaluations counts calls into autog made by this process (evidence: "evaluations").
var Evaluations atomic.Int64

// Result of one Layout call.
type RunResult struct {
	Layout graph.Layout
	Panic  *PanicInfo
	NS     []autog.VerifNSInfo
}

var (
	reNum   = regexp.MustCompile(`-?[0-9]+(\.[0-9]+)?`)
	reQuote = regexp.MustCompile(`"[^"]*"`)
	reHex   = regexp.MustCompile(`0x[0-9a-f]+`)
)

// ClassifyPanic turns a recovered value and the stack at the recovery point into a PanicInfo.
func ClassifyPanic(v any, stack string) *PanicInfo {
	msg := fmt.Sprint(v)
	class := reHex.ReplaceAllString(msg, "#")
	class = reQuote.ReplaceAllString(class, "\"\"")
	class = reNum.ReplaceAllString(class, "#")
	if len(class) > 120 {
		class = class[:120]
	}
	fn := "?"
	lines := strings.Split(stack, "\n")
	seenPanic := false
	for _, l := range lines {
		if strings.HasPrefix(l, "panic(") {
			seenPanic = true
			fn = "?"
			continue
		}
		if seenPanic && fn == "?" && strings.Contains(l, "github.com/nulab/autog") && !strings.HasPrefix(l, "\t") {
			f := l
			if i := strings.LastIndex(f, "("); i > 0 {
				f = f[:i]
			}
			f = strings.TrimPrefix(f, "github.com/nulab/autog/internal/")
			f = strings.TrimPrefix(f, "github.com/nulab/autog/")
			f = strings.TrimPrefix(f, "github.com/nulab/autog")
			// drop closure suffixes and generic instantiation noise
			f = strings.ReplaceAll(f, "[...]", "")
			for strings.HasSuffix(f, ".func1") || strings.HasSuffix(f, ".func2") || strings.HasSuffix(f, ".func3") {
				f = f[:len(f)-6]
			}
			fn = f
		}
	}
	if len(stack) > 6000 {
		stack = stack[:6000]
	}
	return &PanicInfo{Msg: msg, Class: class, Func: fn, Stack: stack}
}

// Retained-result monitor. A layout that was handed to the caller must not change when later calls are made (a result
// backed by memory that the library reuses). Run keeps the last small result of this process together with its canonical
// encoding and re-encodes it after the next call has finished; a difference is recorded here and turned into a violation of
// the running check by the worker. Only the sequential entry point does this (RunPlain is used concurrently).
var (
	retained       graph.Layout
	retainedCanon  string
	retainedSet    bool
	RetainedChecks int    // number of retained results re-encoded after a later call
	aliasViolation string // first difference seen since the last TakeAliasViolation
)

// TakeAliasViolation returns and clears the description of a retained result that changed during a later call.
func TakeAliasViolation() string {
	v := aliasViolation
	aliasViolation = ""
	return v
}

func recheckRetained(next graph.Layout, nextOK bool) {
	if retainedSet {
		RetainedChecks++
		if now := Canon(retained); now != retainedCanon && aliasViolation == "" {
			aliasViolation = fmt.Sprintf("a layout returned by an earlier Layout call changed while a later call ran (the caller's result is backed by memory the library reuses):\n--- as returned\n%s--- after the later call\n%s", clipStr(retainedCanon, 1500), clipStr(now, 1500))
		}
	}
	retainedSet = false
	if nextOK && len(next.Nodes)+len(next.Edges) <= 600 {
		retained, retainedCanon, retainedSet = next, Canon(next), true
	}
}

func clipStr(s string, n int) string {
	if len(s) > n {
		return s[:n] + "...\n"
	}
	return s
}

// Run calls the real autog.Layout once. A panic is recovered and described; fatal errors and hangs are
// the business of the worker/driver protocol. extra options (e.g. a monitor) are appended after o's.
func Run(edges [][]string, o Opts, extra ...autog.Option) (res RunResult) {
	Evaluations.Add(1)
	if o.Breaker == 1 {
		seed := o.GreedySeed
		autog.VerifSetGreedySeed(func() (int64, bool) { return seed, true })
		defer autog.VerifSetGreedySeed(nil)
	}
	autog.VerifSetNSDone(func(i autog.VerifNSInfo) { res.NS = append(res.NS, i) })
	defer autog.VerifSetNSDone(nil)
	defer func() {
		if v := recover(); v != nil {
			res.Panic = ClassifyPanic(v, string(debug.Stack()))
		}
		recheckRetained(res.Layout, res.Panic == nil)
	}()
	opts := append(o.Options(), extra...)
	if o.Monitor {
		opts = append(opts, autog.WithMonitor(&Recorder{}))
	}
	res.Layout = autog.Layout(graph.EdgeSlice(edges), opts...)
	return res
}

// RunPlain is Run without installing any hook (used by the concurrent workload, where hook state must not be shared).
func RunPlain(edges [][]string, o Opts, extra ...autog.Option) (res RunResult) {
	Evaluations.Add(1)
	defer func() {
		if v := recover(); v != nil {
			res.Panic = ClassifyPanic(v, string(debug.Stack()))
		}
	}()
	opts := append(o.Options(), extra...)
	res.Layout = autog.Layout(graph.EdgeSlice(edges), opts...)
	return res
}

func fbits(b *strings.Builder, f float64) {
	b.WriteString(strconv.FormatUint(math.Float64bits(f), 16))
	b.WriteByte(',')
}

// Canon is the canonical byte-exact encoding of a layout (node order, ids, float bits, points, flags).
func Canon(l graph.Layout) string {
	var b strings.Builder
	b.WriteString("N")
	b.WriteString(strconv.Itoa(len(l.Nodes)))
	b.WriteByte('\n')
	for _, n := range l.Nodes {
		b.WriteString(strconv.Quote(n.ID))
		b.WriteByte(':')
		fbits(&b, n.X)
		fbits(&b, n.Y)
		fbits(&b, n.W)
		fbits(&b, n.H)
		b.WriteByte('\n')
	}
	b.WriteString("E")
	b.WriteString(strconv.Itoa(len(l.Edges)))
	b.WriteByte('\n')
	for _, e := range l.Edges {
		b.WriteString(strconv.Quote(e.FromID))
		b.WriteString("->")
		b.WriteString(strconv.Quote(e.ToID))
		if e.ArrowHeadStart {
			b.WriteString(" S ")
		} else {
			b.WriteString(" E ")
		}
		if e.Points == nil {
			b.WriteString("nil")
		}
		for _, p := range e.Points {
			fbits(&b, p[0])
			fbits(&b, p[1])
			b.WriteByte(';')
		}
		b.WriteByte('\n')
	}
	return b.String()
}

// DescribeLayout renders a layout for humans (samples, violation reports).
func DescribeLayout(l graph.Layout, maxItems int) map[string]any {
	var ns []string
	for i, n := range l.Nodes {
		if i >= maxItems {
			ns = append(ns, fmt.Sprintf("... %d more", len(l.Nodes)-i))
			break
		}
		ns = append(ns, fmt.Sprintf("%s x=%v y=%v w=%v h=%v", n.ID, n.X, n.Y, n.W, n.H))
	}
	var es []string
	for i, e := range l.Edges {
		if i >= maxItems {
			es = append(es, fmt.Sprintf("... %d more", len(l.Edges)-i))
			break
		}
		a := ""
		if e.ArrowHeadStart {
			a = " arrow@start"
		}
		es = append(es, fmt.Sprintf("%s->%s%s %v", e.FromID, e.ToID, a, e.Points))
	}
	return map[string]any{"nodes": ns, "edges": es}
}
