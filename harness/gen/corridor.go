package gen

import "math/rand"

// CorridorSpec is a generated C19/C20 input: rectangles {left, top, right, bottom}.
type CorridorSpec struct {
	Rects      [][4]float64
	Start, End [2]float64
	Kind       string
	Shapes     []string // the offset pattern used for each rectangle after the first
}

// Corridor generates a well-formed corridor of k rectangles. grid snaps every coordinate to multiples of 5 (many equalities
// and collinear corners); otherwise coordinates are dyadic multiples of 1/8 (exactly representable, few coincidences).
func Corridor(r *rand.Rand, k int, grid bool) CorridorSpec {
	q := func(v float64) float64 {
		if grid {
			return float64(int(v/5+0.5)) * 5
		}
		return float64(int(v*8+0.5)) / 8
	}
	pos := func(v float64) float64 { // strictly positive after snapping
		v = q(v)
		if v <= 0 {
			if grid {
				return 5
			}
			return 0.125
		}
		return v
	}
	var spec CorridorSpec
	l := q(r.Float64() * 100)
	w := pos(5 + r.Float64()*200)
	t := 0.0
	for i := 0; i < k; i++ {
		h := pos(2 + r.Float64()*80)
		if i > 0 {
			pl, pr := l, l+w
			var nl, nr float64
			shape := ""
			for tries := 0; ; tries++ {
				d1 := pos(r.Float64() * 60)
				d2 := pos(r.Float64() * 60)
				switch r.Intn(9) {
				case 0:
					shape, nl, nr = "same", pl, pr
				case 1:
					shape, nl, nr = "eq-left-wider", pl, pr+d1
				case 2:
					shape, nl, nr = "eq-left-narrower", pl, pr-d1
				case 3:
					shape, nl, nr = "eq-right-wider", pl-d1, pr
				case 4:
					shape, nl, nr = "eq-right-narrower", pl+d1, pr
				case 5:
					shape, nl, nr = "widen-both", pl-d1, pr+d2
				case 6:
					shape, nl, nr = "narrow-both", pl+d1, pr-d2
				case 7:
					shape, nl, nr = "shift-left", pl-d1, pr-d2
				default:
					shape, nl, nr = "shift-right", pl+d1, pr+d2
				}
				// positive width and positive overlap with the previous rectangle
				if nr > nl && minf(nr, pr)-maxf(nl, pl) > 0 {
					break
				}
				if tries > 50 {
					shape, nl, nr = "same", pl, pr
					break
				}
			}
			spec.Shapes = append(spec.Shapes, shape)
			l, w = nl, nr-nl
		}
		spec.Rects = append(spec.Rects, [4]float64{l, t, l + w, t + h})
		t += h
	}
	first, last := spec.Rects[0], spec.Rects[k-1]
	pick := func(rc [4]float64, top bool, kind int) ([2]float64, string) {
		yb := rc[3]
		if top {
			yb = rc[1]
		}
		switch kind {
		case 0: // what phase 5 passes: a point on the outer horizontal boundary
			return [2]float64{q(rc[0] + r.Float64()*(rc[2]-rc[0])), yb}, "boundary"
		case 1:
			return [2]float64{(rc[0] + rc[2]) / 2, yb}, "boundary-mid"
		case 2: // strictly inside (dyadic fractions of the extent)
			fx := float64(1+r.Intn(15)) / 16
			fy := float64(1+r.Intn(15)) / 16
			return [2]float64{rc[0] + fx*(rc[2]-rc[0]), rc[1] + fy*(rc[3]-rc[1])}, "interior"
		case 3: // outer corner
			if r.Intn(2) == 0 {
				return [2]float64{rc[0], yb}, "corner"
			}
			return [2]float64{rc[2], yb}, "corner"
		default: // on a vertical side
			fy := float64(1+r.Intn(15)) / 16
			x := rc[0]
			if r.Intn(2) == 0 {
				x = rc[2]
			}
			return [2]float64{x, rc[1] + fy*(rc[3]-rc[1])}, "side"
		}
	}
	kinds := []int{0, 0, 0, 1, 1, 2, 2, 3, 4}
	var ks, ke string
	spec.Start, ks = pick(first, true, kinds[r.Intn(len(kinds))])
	spec.End, ke = pick(last, false, kinds[r.Intn(len(kinds))])
	// keep the snapped boundary points inside
	spec.Start[0] = clamp(spec.Start[0], first[0], first[2])
	spec.End[0] = clamp(spec.End[0], last[0], last[2])
	spec.Kind = ks + "/" + ke
	return spec
}

func minf(a, b float64) float64 {
	if a < b {
		return a
	}
	return b
}
func maxf(a, b float64) float64 {
	if a > b {
		return a
	}
	return b
}
func clamp(v, lo, hi float64) float64 { return maxf(lo, minf(hi, v)) }
