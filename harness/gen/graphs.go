// Package gen holds the workload generators shared by all property checks.
// Everything here is a deterministic function of a *rand.Rand, which the callers seed from
// (VERIF_SEED, property, tier, case index): no clocks, no global state.
package gen

import (
	"fmt"
	"math/rand"
	"sort"
)

// IG is a graph over integer node ids 0..N-1 (not all ids need to be used by an edge).
type IG struct {
	N      int
	E      [][2]int
	Family string
}

// Mix derives a 63-bit seed from its arguments (splitmix64 finaliser over a running sum).
func Mix(vs ...int64) int64 {
	var x uint64 = 0x9E3779B97F4A7C15
	for _, v := range vs {
		x += uint64(v) + 0x9E3779B97F4A7C15
		x = (x ^ (x >> 30)) * 0xBF58476D1CE4E5B9
		x = (x ^ (x >> 27)) * 0x94D049BB133111EB
		x ^= x >> 31
	}
	return int64(x &^ (1 << 63))
}

func shuffleEdges(r *rand.Rand, e [][2]int) {
	r.Shuffle(len(e), func(i, j int) { e[i], e[j] = e[j], e[i] })
}

// DAG is family F1: random DAG on n nodes with edge probability p, hidden topological order, shuffled edge list.
func DAG(r *rand.Rand, n int, p float64) IG {
	perm := r.Perm(n)
	var e [][2]int
	for i := 0; i < n; i++ {
		for j := i + 1; j < n; j++ {
			if r.Float64() < p {
				e = append(e, [2]int{perm[i], perm[j]})
			}
		}
	}
	if len(e) == 0 {
		e = append(e, [2]int{perm[0], perm[n-1]})
	}
	shuffleEdges(r, e)
	return IG{n, e, "F1-dag"}
}

// Digraph is family F2: m random directed edges (no self loops, no duplicates of the same ordered pair).
func Digraph(r *rand.Rand, n, m int) IG {
	seen := map[[2]int]bool{}
	var e [][2]int
	for tries := 0; len(e) < m && tries < 20*m+20; tries++ {
		a, b := r.Intn(n), r.Intn(n)
		if a == b || seen[[2]int{a, b}] {
			continue
		}
		seen[[2]int{a, b}] = true
		e = append(e, [2]int{a, b})
	}
	if len(e) == 0 {
		e = append(e, [2]int{0, n - 1})
	}
	return IG{n, e, "F2-digraph"}
}

// Multi is family F3: every edge of g is duplicated with probability q and gets an antiparallel twin with probability q2;
// the extra edges are inserted at random positions.
func Multi(r *rand.Rand, g IG, q, q2 float64) IG {
	e := append([][2]int{}, g.E...)
	for _, x := range g.E {
		if r.Float64() < q {
			e = append(e, x)
			if r.Float64() < 0.3 {
				e = append(e, x)
			}
		}
		if r.Float64() < q2 {
			e = append(e, [2]int{x[1], x[0]})
		}
	}
	shuffleEdges(r, e)
	return IG{g.N, e, "F3-multi(" + g.Family + ")"}
}

// SelfLoops is family F4: adds k self loops (possibly several on one node, possibly on fresh nodes that have no other edge).
func SelfLoops(r *rand.Rand, g IG, k int) IG {
	e := append([][2]int{}, g.E...)
	n := g.N
	for i := 0; i < k; i++ {
		var v int
		switch r.Intn(4) {
		case 0: // fresh node whose only edges are self loops
			v = n
			n++
			if r.Intn(2) == 0 {
				e = append(e, [2]int{v, v})
			}
		default:
			v = r.Intn(n)
		}
		pos := r.Intn(len(e) + 1)
		e = append(e, [2]int{})
		copy(e[pos+1:], e[pos:])
		e[pos] = [2]int{v, v}
	}
	return IG{n, e, "F4-selfloops(" + g.Family + ")"}
}

// Union is family F5: disjoint union; the edge lists are interleaved by a random merge that keeps each part's relative order.
// It returns the union and, per edge of the union, the index of the part it came from.
func Union(r *rand.Rand, parts []IG) (IG, []int) {
	off := make([]int, len(parts))
	n := 0
	total := 0
	for i, p := range parts {
		off[i] = n
		n += p.N
		total += len(p.E)
	}
	next := make([]int, len(parts))
	var e [][2]int
	var from []int
	for len(e) < total {
		// pick a part with remaining edges, weighted by what remains
		k := r.Intn(total - len(e))
		pi := 0
		for ; pi < len(parts); pi++ {
			rem := len(parts[pi].E) - next[pi]
			if k < rem {
				break
			}
			k -= rem
		}
		x := parts[pi].E[next[pi]]
		next[pi]++
		e = append(e, [2]int{x[0] + off[pi], x[1] + off[pi]})
		from = append(from, pi)
	}
	return IG{n, e, "F5-union"}, from
}

// Tree is family F6: random rooted tree given by a parent vector; out = edges point away from the root.
func Tree(r *rand.Rand, n int, out bool) IG {
	parent := make([]int, n)
	for i := 1; i < n; i++ {
		parent[i] = r.Intn(i)
	}
	return TreeFromParents(r, parent, out)
}

// TreeFromParents builds the tree for parent vector p (p[0] ignored, p[i] < i), random relabelling and edge order.
func TreeFromParents(r *rand.Rand, parent []int, out bool) IG {
	n := len(parent)
	perm := r.Perm(n)
	var e [][2]int
	for i := 1; i < n; i++ {
		if out {
			e = append(e, [2]int{perm[parent[i]], perm[i]})
		} else {
			e = append(e, [2]int{perm[i], perm[parent[i]]})
		}
	}
	shuffleEdges(r, e)
	f := "F6-outtree"
	if !out {
		f = "F6-intree"
	}
	return IG{n, e, f}
}

// Deep is family F7: layered ladder with `layers` layers and w nodes per layer, random braid edges between consecutive layers,
// every node gets at least one edge to the next layer.
func Deep(r *rand.Rand, layers, w int, extra float64) IG {
	id := func(l, k int) int { return l*w + k }
	var e [][2]int
	for l := 0; l+1 < layers; l++ {
		for k := 0; k < w; k++ {
			e = append(e, [2]int{id(l, k), id(l+1, k)})
			for k2 := 0; k2 < w; k2++ {
				if k2 != k && r.Float64() < extra {
					e = append(e, [2]int{id(l, k), id(l+1, k2)})
				}
			}
		}
	}
	shuffleEdges(r, e)
	return IG{layers * w, e, "F7-deep"}
}

// Wide is family F8: `layers` layers of random width in [wmin,wmax] with random bipartite edges between consecutive layers
// (every node of a lower layer has at least one upper neighbour, so the graph is layered as intended).
func Wide(r *rand.Rand, layers, wmin, wmax int, p float64) IG {
	var start []int
	n := 0
	widths := make([]int, layers)
	for l := range widths {
		widths[l] = wmin + r.Intn(wmax-wmin+1)
		start = append(start, n)
		n += widths[l]
	}
	var e [][2]int
	for l := 0; l+1 < layers; l++ {
		for b := 0; b < widths[l+1]; b++ {
			has := false
			for a := 0; a < widths[l]; a++ {
				if r.Float64() < p {
					e = append(e, [2]int{start[l] + a, start[l+1] + b})
					has = true
				}
			}
			if !has {
				e = append(e, [2]int{start[l] + r.Intn(widths[l]), start[l+1] + b})
			}
		}
		// every node of the upper layer gets a lower neighbour too, so that all generated nodes appear in the edge list
		used := map[int]bool{}
		for _, x := range e {
			used[x[0]] = true
		}
		for a := 0; a < widths[l]; a++ {
			if !used[start[l]+a] {
				e = append(e, [2]int{start[l] + a, start[l+1] + r.Intn(widths[l+1])})
			}
		}
	}
	shuffleEdges(r, e)
	return IG{n, e, "F8-wide"}
}

// Skip is family F9: layered graph (as Wide) plus `skips` edges that jump 2..maxspan layers downwards.
func Skip(r *rand.Rand, layers, wmin, wmax int, p float64, skips, maxspan int) IG {
	g := Wide(r, layers, wmin, wmax, p)
	// recover layer starts: recompute by replaying widths is not possible, so derive layer of each node by longest path
	layer := longestFromSources(g)
	byLayer := map[int][]int{}
	maxl := 0
	for v, l := range layer {
		byLayer[l] = append(byLayer[l], v)
		if l > maxl {
			maxl = l
		}
	}
	seen := map[[2]int]bool{}
	for _, x := range g.E {
		seen[x] = true
	}
	e := g.E
	for i := 0; i < skips; i++ {
		if maxl < 2 {
			break
		}
		span := 2 + r.Intn(maxspan-1)
		if span > maxl {
			span = maxl
		}
		l := r.Intn(maxl - span + 1)
		a := byLayer[l][r.Intn(len(byLayer[l]))]
		b := byLayer[l+span][r.Intn(len(byLayer[l+span]))]
		if seen[[2]int{a, b}] {
			continue
		}
		seen[[2]int{a, b}] = true
		e = append(e, [2]int{a, b})
	}
	shuffleEdges(r, e)
	return IG{g.N, e, "F9-skip"}
}

func longestFromSources(g IG) []int {
	indeg := make([]int, g.N)
	out := make([][]int, g.N)
	for _, x := range g.E {
		indeg[x[1]]++
		out[x[0]] = append(out[x[0]], x[1])
	}
	layer := make([]int, g.N)
	var q []int
	for v := 0; v < g.N; v++ {
		if indeg[v] == 0 {
			q = append(q, v)
		}
	}
	for len(q) > 0 {
		v := q[0]
		q = q[1:]
		for _, w := range out[v] {
			if layer[v]+1 > layer[w] {
				layer[w] = layer[v] + 1
			}
			indeg[w]--
			if indeg[w] == 0 {
				q = append(q, w)
			}
		}
	}
	return layer
}

// CorpusGraph is family F10: one of the repository's own regression graphs, returned with its original ids.
func CorpusGraph(i int) (string, [][]string) {
	c := Corpus[i%len(Corpus)]
	es := make([][]string, len(c.Edges))
	for k, x := range c.Edges {
		es[k] = []string{x[0], x[1]}
	}
	return "F10-" + c.Name, es
}

// Slack is family F12: chains of different lengths between a common top and a common bottom node, plus extra sources
// and sinks attached to chain nodes. Shorter chains have slack, so their nodes (in-degree = out-degree) are exactly
// the nodes that balancing moves between layers; two adjacent movable nodes with slack between them are frequent.
func Slack(r *rand.Rand) IG {
	k := 2 + r.Intn(4)
	var e [][2]int
	top, n := 0, 1
	var chainNodes []int
	var ends []int
	for c := 0; c < k; c++ {
		l := 1 + r.Intn(6)
		prev := top
		for d := 0; d < l; d++ {
			e = append(e, [2]int{prev, n})
			chainNodes = append(chainNodes, n)
			prev = n
			n++
		}
		ends = append(ends, prev)
	}
	bottom := n
	n++
	for _, v := range ends {
		e = append(e, [2]int{v, bottom})
	}
	for x := r.Intn(4); x > 0; x-- { // extra sources
		src := n
		n++
		for t := 1 + r.Intn(3); t > 0; t-- {
			e = append(e, [2]int{src, chainNodes[r.Intn(len(chainNodes))]})
		}
		if r.Intn(2) == 0 {
			e = append(e, [2]int{src, bottom})
		}
	}
	for x := r.Intn(3); x > 0; x-- { // extra sinks
		snk := n
		n++
		for t := 1 + r.Intn(2); t > 0; t-- {
			e = append(e, [2]int{chainNodes[r.Intn(len(chainNodes))], snk})
		}
	}
	// dedupe
	seen := map[[2]int]bool{}
	var out [][2]int
	for _, x := range e {
		if !seen[x] {
			seen[x] = true
			out = append(out, x)
		}
	}
	shuffleEdges(r, out)
	return IG{n, out, "F12-slack"}
}

// Hub is family F13: a chain plus a hub node with 25-50 out-edges (distinct children that feed chain nodes, and
// parallel edges straight into chain nodes). A pivot of the network simplex then has dozens of candidate entering
// edges with different slacks; the hub has to move as a whole.
func Hub(r *rand.Rand) IG {
	l := 5 + r.Intn(6)
	var e [][2]int
	for i := 0; i+1 < l; i++ {
		e = append(e, [2]int{i, i + 1})
	}
	hub := l
	n := l + 1
	attach := r.Intn(2)
	e = append(e, [2]int{attach, hub})
	m := 31 + r.Intn(16)
	// targets at least two layers below the hub's initial layer: every hub edge has slack, so the hub can (and has to) move
	first := attach + 3
	type out struct {
		es    [][2]int
		depth int
	}
	var outs []out
	for k := 0; k < m; k++ {
		t := first + r.Intn(l-first)
		if r.Intn(10) < 7 {
			outs = append(outs, out{[][2]int{{hub, t}}, t}) // straight into the chain, possibly parallel
		} else {
			outs = append(outs, out{[][2]int{{hub, n}, {n, t}}, t})
			n++
		}
	}
	switch r.Intn(3) {
	case 0:
		// deepest targets first: the edge with the smallest slack comes after dozens of edges with a larger one
		sort.SliceStable(outs, func(i, j int) bool { return outs[i].depth > outs[j].depth })
	case 1:
		sort.SliceStable(outs, func(i, j int) bool { return outs[i].depth < outs[j].depth })
	}
	for _, o := range outs {
		e = append(e, o.es...)
	}
	if r.Intn(4) == 0 {
		shuffleEdges(r, e)
	}
	return IG{n, e, "F13-hub"}
}

// LongEdges is family F14: a chain of 22-40 nodes plus a few edges that span 20 layers or more (each becomes a run of
// 20+ helper nodes, a corridor of 40+ rectangles), some of them parallel, plus a few side nodes.
func LongEdges(r *rand.Rand) IG {
	l := 22 + r.Intn(19)
	var e [][2]int
	for i := 0; i+1 < l; i++ {
		e = append(e, [2]int{i, i + 1})
	}
	n := l
	for k := 1 + r.Intn(4); k > 0; k-- {
		a := r.Intn(l - 20)
		b := a + 20 + r.Intn(l-20-a)
		e = append(e, [2]int{a, b})
		if r.Intn(3) == 0 {
			e = append(e, [2]int{a, b}) // parallel long edge
		}
	}
	for k := r.Intn(4); k > 0; k-- { // side nodes
		e = append(e, [2]int{r.Intn(l), n})
		n++
	}
	shuffleEdges(r, e)
	return IG{n, e, "F14-long-edges"}
}

// DeepPath is family F15: one directed path of 1030-1500 nodes listed from its top (so that every depth-first walk of the
// library descends more than 1024 levels before it returns), with a few side leaves and, if back > 0, that many edges
// from a node of the path to an earlier one (each closes a cycle; short ones near the top, long ones anywhere). Thresholds on
// recursion depth, layer count or path length show only here. Half of the instances keep the extras at the end of the
// edge list, the other half insert them at random places.
func DeepPath(r *rand.Rand, back int) IG {
	l := 1030 + r.Intn(471)
	var e [][2]int
	for i := 0; i+1 < l; i++ {
		e = append(e, [2]int{i, i + 1})
	}
	n := l
	var extra [][2]int
	for k := r.Intn(6); k > 0; k-- { // side leaves
		extra = append(extra, [2]int{r.Intn(l), n})
		n++
	}
	for k := 0; k < back; k++ {
		var a, b int
		if k == 0 {
			a = r.Intn(4)
			b = a + 1 + r.Intn(5)
		} else {
			a = r.Intn(l - 1)
			b = a + 1 + r.Intn(l-1-a)
		}
		extra = append(extra, [2]int{b, a})
	}
	if r.Intn(2) == 0 {
		e = append(e, extra...)
	} else {
		for _, x := range extra {
			at := r.Intn(len(e) + 1)
			e = append(e, [2]int{})
			copy(e[at+1:], e[at:])
			e[at] = x
		}
	}
	return IG{n, e, "F15-deep-path"}
}

// Coincidence is family F11: structures aimed at the mechanisms named in the properties.
func Coincidence(r *rand.Rand) IG {
	if r.Intn(4) == 0 {
		return Slack(r)
	}
	switch r.Intn(5) {
	case 0:
		// hub inside a cycle with k adjacent out-edges towards nodes that all point back to a common predecessor:
		// the breaker has to reverse several adjacent out-edges of one node.
		k := 2 + r.Intn(5)
		// nodes: 0 hub, 1..k targets, k+1 .. extra
		var e [][2]int
		for i := 1; i <= k; i++ {
			e = append(e, [2]int{0, i})
		}
		for i := 1; i <= k; i++ {
			for j := i + 1; j <= k; j++ {
				if r.Intn(3) == 0 {
					e = append(e, [2]int{j, i})
				}
			}
		}
		extra := 1 + r.Intn(4)
		n := k + 1 + extra
		for x := k + 1; x < n; x++ {
			e = append(e, [2]int{x, 0})
			e = append(e, [2]int{1 + r.Intn(k), x})
		}
		if r.Intn(2) == 0 {
			shuffleEdges(r, e)
		}
		return IG{n, e, "F11-hub"}
	case 1:
		// diamond lattice a x b: node (i,j) -> (i+1,j), (i,j+1): many tied slacks
		a, b := 2+r.Intn(5), 2+r.Intn(5)
		id := func(i, j int) int { return i*b + j }
		var e [][2]int
		for i := 0; i < a; i++ {
			for j := 0; j < b; j++ {
				if i+1 < a {
					e = append(e, [2]int{id(i, j), id(i+1, j)})
				}
				if j+1 < b {
					e = append(e, [2]int{id(i, j), id(i, j+1)})
				}
			}
		}
		// a few chords
		for c := r.Intn(4); c > 0; c-- {
			i, j := r.Intn(a), r.Intn(b)
			i2, j2 := i+r.Intn(a-i), j+r.Intn(b-j)
			if i2+j2 > i+j+1 {
				e = append(e, [2]int{id(i, j), id(i2, j2)})
			}
		}
		shuffleEdges(r, e)
		return IG{a * b, e, "F11-lattice"}
	case 2:
		// k parallel columns of equal length joined at a common top (and sometimes bottom): equal blocks
		k, l := 2+r.Intn(5), 2+r.Intn(5)
		var e [][2]int
		top := 0
		n := 1
		var last []int
		for c := 0; c < k; c++ {
			prev := top
			for d := 0; d < l; d++ {
				e = append(e, [2]int{prev, n})
				prev = n
				n++
			}
			last = append(last, prev)
		}
		if r.Intn(2) == 0 {
			for _, v := range last {
				e = append(e, [2]int{v, n})
			}
			n++
		}
		shuffleEdges(r, e)
		return IG{n, e, "F11-columns"}
	case 3:
		// one node above many children, some with grand children: wide-above-narrow / narrow-above-wide via sizes
		k := 3 + r.Intn(8)
		var e [][2]int
		n := k + 1
		for i := 1; i <= k; i++ {
			e = append(e, [2]int{0, i})
			if r.Intn(2) == 0 {
				e = append(e, [2]int{i, n})
				n++
			}
		}
		// a long edge from the root to a grandchild level
		if n > k+1 {
			e = append(e, [2]int{0, k + 1 + r.Intn(n-k-1)})
		}
		shuffleEdges(r, e)
		return IG{n, e, "F11-fan"}
	default:
		// cycle ring with chords
		n := 3 + r.Intn(8)
		var e [][2]int
		for i := 0; i < n; i++ {
			e = append(e, [2]int{i, (i + 1) % n})
		}
		for c := r.Intn(n); c > 0; c-- {
			a, b := r.Intn(n), r.Intn(n)
			if a != b {
				e = append(e, [2]int{a, b})
			}
		}
		shuffleEdges(r, e)
		return IG{n, e, "F11-ring"}
	}
}

// Connect adds edges so that the underlying undirected graph on the nodes used by edges (plus unused nodes) is connected.
// If acyclicOrder is non-nil the new edges respect it (order[a] < order[b] for every new edge a->b).
func Connect(r *rand.Rand, g IG, keepAcyclic bool) IG {
	uf := newUF(g.N)
	for _, x := range g.E {
		uf.union(x[0], x[1])
	}
	var order []int
	if keepAcyclic {
		order = longestFromSources(g)
	}
	e := append([][2]int{}, g.E...)
	for v := 1; v < g.N; v++ {
		if uf.find(v) != uf.find(0) {
			// join v's component to 0's through a random node of 0's component
			var cand []int
			for w := 0; w < g.N; w++ {
				if uf.find(w) == uf.find(0) {
					cand = append(cand, w)
				}
			}
			w := cand[r.Intn(len(cand))]
			a, b := w, v
			if keepAcyclic {
				// v's component and w's component are disjoint: any direction keeps acyclicity
				if r.Intn(2) == 0 {
					a, b = v, w
				}
				_ = order
			} else if r.Intn(2) == 0 {
				a, b = v, w
			}
			pos := r.Intn(len(e) + 1)
			e = append(e, [2]int{})
			copy(e[pos+1:], e[pos:])
			e[pos] = [2]int{a, b}
			uf.union(a, b)
		}
	}
	return IG{g.N, e, g.Family + "+conn"}
}

type uf struct{ p []int }

func newUF(n int) *uf {
	u := &uf{make([]int, n)}
	for i := range u.p {
		u.p[i] = i
	}
	return u
}
func (u *uf) find(x int) int {
	for u.p[x] != x {
		u.p[x] = u.p[u.p[x]]
		x = u.p[x]
	}
	return x
}
func (u *uf) union(a, b int) { u.p[u.find(a)] = u.find(b) }

// Names converts g to a string edge list with ids N<k>.
func Names(g IG) [][]string {
	es := make([][]string, len(g.E))
	for i, x := range g.E {
		es[i] = []string{fmt.Sprintf("N%d", x[0]), fmt.Sprintf("N%d", x[1])}
	}
	return es
}

// Mixed draws a graph from the general-purpose mixture of families F1-F5, F7-F9, F11 with at most maxN nodes
// (deep/wide families may exceed maxN moderately).
func Mixed(r *rand.Rand, maxN int) IG {
	if maxN < 3 {
		maxN = 3
	}
	n := 2 + r.Intn(maxN-1)
	base := func() IG {
		switch r.Intn(6) {
		case 0, 1:
			if n <= 12 {
				return DAG(r, n, 0.05+r.Float64()*0.55)
			}
			// larger graphs are kept sparse: every long edge costs one helper node per crossed layer, and the ordering
			// phase is quadratic in the layer width, so dense 40-node DAGs are "large" inputs in disguise
			return DAG(r, n, (1+2.5*r.Float64())/float64(n))
		case 2:
			if n <= 12 {
				return Digraph(r, n, 1+r.Intn(3*n))
			}
			return Digraph(r, n, 1+r.Intn(3*n/2))
		case 3:
			l := 2 + r.Intn(6)
			w := 1 + maxN/(2*l)
			return Skip(r, l, 1, w+1, 0.2+r.Float64()*0.4, r.Intn(6), 2+r.Intn(4))
		case 4:
			return Coincidence(r)
		default:
			if n <= 12 {
				return DAG(r, n, 1.5/float64(n)+r.Float64()*0.2)
			}
			return DAG(r, n, (1.5+r.Float64())/float64(n))
		}
	}
	g := base()
	switch r.Intn(10) {
	case 0, 1:
		g = Multi(r, g, 0.25, 0.15)
	case 2:
		g = SelfLoops(r, g, 1+r.Intn(3))
	case 3:
		g = SelfLoops(r, Multi(r, g, 0.2, 0.2), 1+r.Intn(3))
	case 4:
		k := 2 + r.Intn(3)
		parts := []IG{g}
		for i := 1; i < k; i++ {
			m := 1 + r.Intn(6)
			switch r.Intn(4) {
			case 0:
				parts = append(parts, IG{1, [][2]int{{0, 0}}, "selfloop-node"})
			case 1:
				parts = append(parts, Digraph(r, m+1, 1+r.Intn(2*m+1)))
			default:
				parts = append(parts, DAG(r, m+1, 0.5))
			}
		}
		r.Shuffle(len(parts), func(i, j int) { parts[i], parts[j] = parts[j], parts[i] })
		g, _ = Union(r, parts)
	}
	return g
}
