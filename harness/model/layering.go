package model

// Independent reference computations on layered DAGs: longest paths, acyclicity, and the optimality certificate of a
// minimum-total-length layering (LP duality / complementary slackness decided by one max-flow).

// DEdge is a directed edge between node indices.
type DEdge struct{ From, To int }

// Acyclic reports whether the directed multigraph on n nodes has no directed cycle (self loops count as cycles).
func Acyclic(n int, es []DEdge) bool {
	indeg := make([]int, n)
	out := make([][]int, n)
	for _, e := range es {
		out[e.From] = append(out[e.From], e.To)
		indeg[e.To]++
	}
	var q []int
	for v := 0; v < n; v++ {
		if indeg[v] == 0 {
			q = append(q, v)
		}
	}
	seen := 0
	for len(q) > 0 {
		v := q[len(q)-1]
		q = q[:len(q)-1]
		seen++
		for _, w := range out[v] {
			indeg[w]--
			if indeg[w] == 0 {
				q = append(q, w)
			}
		}
	}
	return seen == n
}

// LongestToSink returns for every node the number of edges of the longest directed path starting at it (0 for sinks).
// The graph must be acyclic.
func LongestToSink(n int, es []DEdge) []int {
	out := make([][]int, n)
	for _, e := range es {
		out[e.From] = append(out[e.From], e.To)
	}
	memo := make([]int, n)
	for i := range memo {
		memo[i] = -1
	}
	// iterative post-order to stay independent of recursion limits
	type frame struct{ v, i int }
	for s := 0; s < n; s++ {
		if memo[s] >= 0 {
			continue
		}
		st := []frame{{s, 0}}
		for len(st) > 0 {
			f := &st[len(st)-1]
			if f.i < len(out[f.v]) {
				w := out[f.v][f.i]
				f.i++
				if memo[w] < 0 {
					st = append(st, frame{w, 0})
				}
				continue
			}
			best := 0
			for _, w := range out[f.v] {
				if memo[w]+1 > best {
					best = memo[w] + 1
				}
			}
			memo[f.v] = best
			st = st[:len(st)-1]
		}
	}
	return memo
}

// LongestFromSource returns for every node the number of edges of the longest directed path ending at it.
func LongestFromSource(n int, es []DEdge) []int {
	rev := make([]DEdge, len(es))
	for i, e := range es {
		rev[i] = DEdge{e.To, e.From}
	}
	return LongestToSink(n, rev)
}

// TotalSpan returns the sum over edges of layer[to]-layer[from], and whether every edge spans at least one layer.
func TotalSpan(es []DEdge, layer []int) (total int, feasible bool) {
	feasible = true
	for _, e := range es {
		d := layer[e.To] - layer[e.From]
		if d < 1 {
			feasible = false
		}
		total += d
	}
	return
}

// OptimalLayering decides whether the feasible layering `layer` minimises the total edge span over all feasible layerings.
//
// Primal: min sum_e (y_to - y_from) s.t. y_to - y_from >= 1. Its dual asks for a flow lambda >= 0 with net inflow
// indeg(v)-outdeg(v) at every node; by complementary slackness the layering is optimal iff such a flow exists that uses
// tight edges only (the constraint matrix is totally unimodular, so no integrality gap). This is a transportation problem:
// one max-flow from the nodes with more out- than in-edges to the nodes with more in- than out-edges along tight edges.
func OptimalLayering(n int, es []DEdge, layer []int) bool {
	S, T := n, n+1
	d := newDinic(n + 2)
	need := 0
	bal := make([]int, n)
	for _, e := range es {
		bal[e.To]++
		bal[e.From]--
		if layer[e.To]-layer[e.From] == 1 {
			d.addEdge(e.From, e.To, 1<<40)
		}
	}
	for v := 0; v < n; v++ {
		if bal[v] < 0 {
			d.addEdge(S, v, int64(-bal[v]))
		} else if bal[v] > 0 {
			d.addEdge(v, T, int64(bal[v]))
			need += bal[v]
		}
	}
	return d.maxflow(S, T) == int64(need)
}

// BruteMinSpan returns the minimum total span over all feasible layerings by exhaustive search (n <= 8).
func BruteMinSpan(n int, es []DEdge) int {
	best := 1 << 30
	layer := make([]int, n)
	var rec func(v int)
	rec = func(v int) {
		if v == n {
			if t, ok := TotalSpan(es, layer); ok && t < best {
				best = t
			}
			return
		}
		for l := 0; l < n; l++ {
			layer[v] = l
			// prune: edges among assigned nodes must be feasible
			ok := true
			for _, e := range es {
				if e.From <= v && e.To <= v && layer[e.To]-layer[e.From] < 1 {
					ok = false
					break
				}
			}
			if ok {
				rec(v + 1)
			}
		}
	}
	rec(0)
	return best
}

type dinicEdge struct {
	to  int
	cap int64
}

type dinic struct {
	g     [][]int
	es    []dinicEdge
	level []int
	it    []int
}

func newDinic(n int) *dinic { return &dinic{g: make([][]int, n)} }

func (d *dinic) addEdge(a, b int, c int64) {
	d.g[a] = append(d.g[a], len(d.es))
	d.es = append(d.es, dinicEdge{b, c})
	d.g[b] = append(d.g[b], len(d.es))
	d.es = append(d.es, dinicEdge{a, 0})
}

func (d *dinic) bfs(s, t int) bool {
	d.level = make([]int, len(d.g))
	for i := range d.level {
		d.level[i] = -1
	}
	d.level[s] = 0
	q := []int{s}
	for len(q) > 0 {
		v := q[0]
		q = q[1:]
		for _, id := range d.g[v] {
			e := d.es[id]
			if e.cap > 0 && d.level[e.to] < 0 {
				d.level[e.to] = d.level[v] + 1
				q = append(q, e.to)
			}
		}
	}
	return d.level[t] >= 0
}

func (d *dinic) dfs(v, t int, f int64) int64 {
	if v == t {
		return f
	}
	for ; d.it[v] < len(d.g[v]); d.it[v]++ {
		id := d.g[v][d.it[v]]
		e := &d.es[id]
		if e.cap > 0 && d.level[e.to] == d.level[v]+1 {
			if got := d.dfs(e.to, t, min(f, e.cap)); got > 0 {
				e.cap -= got
				d.es[id^1].cap += got
				return got
			}
		}
	}
	return 0
}

func (d *dinic) maxflow(s, t int) int64 {
	var flow int64
	for d.bfs(s, t) {
		d.it = make([]int, len(d.g))
		for {
			f := d.dfs(s, t, 1<<50)
			if f == 0 {
				break
			}
			flow += f
		}
	}
	return flow
}
