// Package model holds the independent reference models used by the oracles. Nothing here shares code with autog.
package model

import (
	"container/heap"
	"fmt"
	"math"
)

// Rect is {left, top, right, bottom} with top < bottom (y grows downwards).
type Rect = [4]float64

// Pt is a point {x, y}.
type Pt = [2]float64

// WellFormed checks the C19 precondition: rectangles of positive width and height, stacked vertically so that each
// one starts where the previous one ends, consecutive ones sharing a boundary segment of positive length; start inside
// the first rectangle and end inside the last one (boundaries included).
func WellFormed(rects []Rect, start, end Pt) error {
	if len(rects) == 0 {
		return fmt.Errorf("no rectangles")
	}
	for i, r := range rects {
		for _, v := range r {
			if math.IsNaN(v) || math.IsInf(v, 0) {
				return fmt.Errorf("rect %d not finite", i)
			}
		}
		if !(r[2] > r[0]) || !(r[3] > r[1]) {
			return fmt.Errorf("rect %d has no positive width and height: %v", i, r)
		}
		if i > 0 {
			p := rects[i-1]
			if p[3] != r[1] {
				return fmt.Errorf("rect %d does not start where rect %d ends: %v vs %v", i, i-1, r[1], p[3])
			}
			if !(math.Min(p[2], r[2])-math.Max(p[0], r[0]) > 0) {
				return fmt.Errorf("rects %d and %d share no boundary segment of positive length", i-1, i)
			}
		}
	}
	in := func(p Pt, r Rect) bool { return p[0] >= r[0] && p[0] <= r[2] && p[1] >= r[1] && p[1] <= r[3] }
	if !in(start, rects[0]) {
		return fmt.Errorf("start %v outside first rect %v", start, rects[0])
	}
	if !in(end, rects[len(rects)-1]) {
		return fmt.Errorf("end %v outside last rect %v", end, rects[len(rects)-1])
	}
	return nil
}

// PointInside reports whether p lies in the union of the rectangles, enlarged by tol.
func PointInside(rects []Rect, p Pt, tol float64) bool {
	for _, r := range rects {
		if p[0] >= r[0]-tol && p[0] <= r[2]+tol && p[1] >= r[1]-tol && p[1] <= r[3]+tol {
			return true
		}
	}
	return false
}

// PointDist returns the Euclidean distance from p to the union of the rectangles (0 if inside).
func PointDist(rects []Rect, p Pt) float64 {
	best := math.Inf(1)
	for _, r := range rects {
		dx := math.Max(math.Max(r[0]-p[0], 0), p[0]-r[2])
		dy := math.Max(math.Max(r[1]-p[1], 0), p[1]-r[3])
		if d := math.Hypot(dx, dy); d < best {
			best = d
		}
	}
	return best
}

// SegInside reports whether the closed segment pq lies inside the corridor (union of the stacked rectangles), up to tol.
// The corridor is a stack, so inside each rectangle's open y-band the segment must stay within that rectangle's x-range
// (by linearity the two clip points decide); on a shared boundary line the union of the two x-ranges applies.
func SegInside(rects []Rect, p, q Pt, tol float64) bool {
	if p[1] > q[1] {
		p, q = q, p
	}
	ymin, ymax := p[1], q[1]
	if ymin < rects[0][1]-tol || ymax > rects[len(rects)-1][3]+tol {
		return false
	}
	xAt := func(y float64) float64 {
		if ymax == ymin {
			return p[0]
		}
		t := (y - ymin) / (ymax - ymin)
		return p[0] + t*(q[0]-p[0])
	}
	if ymax-ymin <= 0 {
		// horizontal (or a single point): the rectangles whose closed band holds y form a run of adjacent rectangles
		// (one, or two on a shared boundary); their x-ranges overlap pairwise, so the union is an interval
		lo, hi := math.Inf(1), math.Inf(-1)
		for _, r := range rects {
			if ymin >= r[1]-tol && ymin <= r[3]+tol {
				lo = math.Min(lo, r[0])
				hi = math.Max(hi, r[2])
			}
		}
		x0, x1 := math.Min(p[0], q[0]), math.Max(p[0], q[0])
		return x0 >= lo-tol && x1 <= hi+tol
	}
	for _, r := range rects {
		ya, yb := math.Max(r[1], ymin), math.Min(r[3], ymax)
		if ya > yb {
			continue
		}
		if ya == yb {
			// the segment only touches this band in one point, which also belongs to a neighbouring band or is an end point
			if !PointInside(rects, Pt{xAt(ya), ya}, tol) {
				return false
			}
			continue
		}
		xa, xb := xAt(ya), xAt(yb)
		if xa < r[0]-tol || xa > r[2]+tol || xb < r[0]-tol || xb > r[2]+tol {
			return false
		}
	}
	return true
}

// PolylineInside checks every segment of a polyline; it returns the index of the first offending segment or -1.
func PolylineInside(rects []Rect, pts []Pt, tol float64) int {
	for i := 1; i < len(pts); i++ {
		if !SegInside(rects, pts[i-1], pts[i], tol) {
			return i - 1
		}
	}
	return -1
}

// PolylineLen returns the length of a polyline.
func PolylineLen(pts []Pt) float64 {
	l := 0.0
	for i := 1; i < len(pts); i++ {
		l += math.Hypot(pts[i][0]-pts[i-1][0], pts[i][1]-pts[i-1][1])
	}
	return l
}

type pqItem struct {
	v int
	d float64
}
type pq []pqItem

func (h pq) Len() int            { return len(h) }
func (h pq) Less(i, j int) bool  { return h[i].d < h[j].d }
func (h pq) Swap(i, j int)       { h[i], h[j] = h[j], h[i] }
func (h *pq) Push(x interface{}) { *h = append(*h, x.(pqItem)) }
func (h *pq) Pop() interface{} {
	o := *h
	x := o[len(o)-1]
	*h = o[:len(o)-1]
	return x
}

// ShortestPath returns the Euclidean shortest path from start to end inside the corridor, computed on the visibility
// graph over {start, end, rectangle corners} with Dijkstra. It is exact (up to float rounding) because a shortest path in a
// polygon bends only at polygon vertices.
func ShortestPath(rects []Rect, start, end Pt, tol float64) (float64, []Pt) {
	vs := []Pt{start, end}
	seen := map[Pt]bool{start: true, end: true}
	for _, r := range rects {
		for _, c := range []Pt{{r[0], r[1]}, {r[2], r[1]}, {r[0], r[3]}, {r[2], r[3]}} {
			if !seen[c] {
				seen[c] = true
				vs = append(vs, c)
			}
		}
	}
	n := len(vs)
	dist := make([]float64, n)
	prev := make([]int, n)
	done := make([]bool, n)
	for i := range dist {
		dist[i] = math.Inf(1)
		prev[i] = -1
	}
	dist[0] = 0
	h := &pq{{0, 0}}
	vis := map[[2]int]bool{}
	visible := func(a, b int) bool {
		k := [2]int{a, b}
		if a > b {
			k = [2]int{b, a}
		}
		if v, ok := vis[k]; ok {
			return v
		}
		v := SegInside(rects, vs[a], vs[b], tol)
		vis[k] = v
		return v
	}
	for h.Len() > 0 {
		it := heap.Pop(h).(pqItem)
		if done[it.v] {
			continue
		}
		done[it.v] = true
		if it.v == 1 {
			break
		}
		for w := 0; w < n; w++ {
			if done[w] || w == it.v {
				continue
			}
			d := it.d + math.Hypot(vs[w][0]-vs[it.v][0], vs[w][1]-vs[it.v][1])
			if d < dist[w] && visible(it.v, w) {
				dist[w] = d
				prev[w] = it.v
				heap.Push(h, pqItem{w, d})
			}
		}
	}
	var path []Pt
	for v := 1; v >= 0; v = prev[v] {
		path = append(path, vs[v])
		if v == 0 {
			break
		}
	}
	// path is end..start; reverse to start..end
	for i, j := 0, len(path)-1; i < j; i, j = i+1, j-1 {
		path[i], path[j] = path[j], path[i]
	}
	return dist[1], path
}

// Bezier evaluates a cubic Bézier piece {p0,p1,p2,p3} at t by De Casteljau.
func Bezier(c [4]Pt, t float64) Pt {
	lerp := func(a, b Pt) Pt { return Pt{a[0] + (b[0]-a[0])*t, a[1] + (b[1]-a[1])*t} }
	a, b, d := lerp(c[0], c[1]), lerp(c[1], c[2]), lerp(c[2], c[3])
	e, f := lerp(a, b), lerp(b, d)
	return lerp(e, f)
}
