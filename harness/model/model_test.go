package model

import (
	"math"
	"math/rand"
	"testing"
)

// randomCorridor builds a well-formed corridor on a coarse grid (many coincidences).
func randomCorridor(r *rand.Rand) []Rect {
	k := 1 + r.Intn(6)
	var rs []Rect
	l, w, t := float64(r.Intn(10)*5), float64(5+r.Intn(10)*5), 0.0
	for i := 0; i < k; i++ {
		h := float64(5 + r.Intn(6)*5)
		if i > 0 {
			for {
				nl := l + float64(r.Intn(9)-4)*5
				nw := float64(5 + r.Intn(10)*5)
				if math.Min(nl+nw, l+w)-math.Max(nl, l) > 0 {
					l, w = nl, nw
					break
				}
			}
		}
		rs = append(rs, Rect{l, t, l + w, t + h})
		t += h
	}
	return rs
}

// SegInside must agree with dense point sampling of the segment.
func TestSegInsideAgainstSampling(t *testing.T) {
	r := rand.New(rand.NewSource(1))
	disagree := 0
	for it := 0; it < 20000; it++ {
		rs := randomCorridor(r)
		bb := Rect{math.Inf(1), 0, math.Inf(-1), rs[len(rs)-1][3]}
		for _, x := range rs {
			bb[0], bb[2] = math.Min(bb[0], x[0]), math.Max(bb[2], x[2])
		}
		pt := func() Pt {
			// grid points and arbitrary points, some slightly outside
			if r.Intn(2) == 0 {
				return Pt{bb[0] + float64(r.Intn(int((bb[2]-bb[0])/5)+1))*5, float64(r.Intn(int(bb[3]/5)+1)) * 5}
			}
			return Pt{bb[0] - 2 + r.Float64()*(bb[2]-bb[0]+4), -2 + r.Float64()*(bb[3]+4)}
		}
		p, q := pt(), pt()
		got := SegInside(rs, p, q, 1e-9)
		// sampling: every sample point must be inside (tolerance a bit larger than the oracle's, so that only clear
		// disagreements count); a segment that is inside must have all samples inside
		allIn, clearlyOut := true, false
		for s := 0; s <= 2000; s++ {
			f := float64(s) / 2000
			x := Pt{p[0] + f*(q[0]-p[0]), p[1] + f*(q[1]-p[1])}
			if !PointInside(rs, x, 1e-7) {
				allIn = false
			}
			if PointDist(rs, x) > 1e-3 {
				clearlyOut = true
			}
		}
		if got && !allIn {
			disagree++
			t.Errorf("SegInside=true but a sample is outside: rects %v seg %v-%v", rs, p, q)
		}
		if !got && !clearlyOut && allIn {
			// the excursion may be shorter than the sampling step: look again much more closely before complaining
			fine := true
			for s := 0; s <= 2000000 && fine; s++ {
				f := float64(s) / 2000000
				if !PointInside(rs, Pt{p[0] + f*(q[0]-p[0]), p[1] + f*(q[1]-p[1])}, 1e-12) {
					fine = false
				}
			}
			if !fine {
				continue
			}
			disagree++
			t.Errorf("SegInside=false but all samples are inside: rects %v seg %v-%v", rs, p, q)
		}
		if disagree > 5 {
			t.FailNow()
		}
	}
}

// The visibility-graph shortest path must be inside the corridor and no longer than any random inside polyline through corners.
func TestShortestPathIsInsideAndMinimalAmongSamples(t *testing.T) {
	r := rand.New(rand.NewSource(2))
	for it := 0; it < 5000; it++ {
		rs := randomCorridor(r)
		f, l := rs[0], rs[len(rs)-1]
		s := Pt{f[0] + r.Float64()*(f[2]-f[0]), f[1]}
		e := Pt{l[0] + r.Float64()*(l[2]-l[0]), l[3]}
		d, path := ShortestPath(rs, s, e, 1e-9)
		if math.IsInf(d, 1) {
			t.Fatalf("no path in well-formed corridor %v", rs)
		}
		if PolylineInside(rs, path, 1e-9) >= 0 {
			t.Fatalf("reference path leaves the corridor: %v %v", rs, path)
		}
		if math.Abs(PolylineLen(path)-d) > 1e-9*math.Max(1, d) {
			t.Fatalf("length mismatch")
		}
		// a straight segment, when inside, is the shortest path
		if SegInside(rs, s, e, 1e-9) && d > math.Hypot(e[0]-s[0], e[1]-s[1])*(1+1e-12) {
			t.Fatalf("straight segment is inside but reference is longer: %v", rs)
		}
		// random inside polylines through midpoints of the shared boundaries are never shorter
		for try := 0; try < 20; try++ {
			pts := []Pt{s}
			for i := 1; i < len(rs); i++ {
				lo, hi := math.Max(rs[i-1][0], rs[i][0]), math.Min(rs[i-1][2], rs[i][2])
				pts = append(pts, Pt{lo + r.Float64()*(hi-lo), rs[i][1]})
			}
			pts = append(pts, e)
			if PolylineInside(rs, pts, 1e-9) >= 0 {
				t.Fatalf("gate polyline not inside: %v %v", rs, pts)
			}
			if PolylineLen(pts) < d*(1-1e-12) {
				t.Fatalf("found an inside path shorter than the reference: %v vs %v in %v", PolylineLen(pts), d, rs)
			}
		}
	}
}

// The max-flow optimality certificate must agree with exhaustive search.
func TestOptimalityCertificateAgainstBruteForce(t *testing.T) {
	r := rand.New(rand.NewSource(3))
	opt, sub := 0, 0
	for it := 0; it < 3000; it++ {
		n := 2 + r.Intn(5)
		perm := r.Perm(n)
		var es []DEdge
		for i := 0; i < n; i++ {
			for j := i + 1; j < n; j++ {
				if r.Intn(3) == 0 {
					es = append(es, DEdge{perm[i], perm[j]})
					if r.Intn(5) == 0 {
						es = append(es, DEdge{perm[i], perm[j]}) // parallel edge
					}
				}
			}
		}
		if len(es) == 0 {
			continue
		}
		best := BruteMinSpan(n, es)
		// a random feasible layering: longest path from sources plus random extra slack
		layer := LongestFromSource(n, es)
		if r.Intn(2) == 0 {
			// push a random down-closed set further down: stays feasible
			v := r.Intn(n)
			desc := map[int]bool{v: true}
			for changed := true; changed; {
				changed = false
				for _, e := range es {
					if desc[e.From] && !desc[e.To] {
						desc[e.To] = true
						changed = true
					}
				}
			}
			for d := range desc {
				layer[d]++
			}
		}
		total, ok := TotalSpan(es, layer)
		if !ok {
			t.Fatalf("constructed layering infeasible")
		}
		cert := OptimalLayering(n, es, layer)
		if cert != (total == best) {
			t.Fatalf("certificate %v but total %d, optimum %d: edges %v layers %v", cert, total, best, es, layer)
		}
		if cert {
			opt++
		} else {
			sub++
		}
	}
	if opt < 100 || sub < 100 {
		t.Fatalf("test did not see both outcomes: optimal %d, sub-optimal %d", opt, sub)
	}
}

func TestLongestPaths(t *testing.T) {
	es := []DEdge{{0, 1}, {1, 2}, {0, 2}, {3, 2}}
	if got := LongestToSink(4, es); got[0] != 2 || got[1] != 1 || got[2] != 0 || got[3] != 1 {
		t.Fatalf("LongestToSink = %v", got)
	}
	if !Acyclic(4, es) || Acyclic(2, []DEdge{{0, 1}, {1, 0}}) {
		t.Fatalf("Acyclic wrong")
	}
}
