#!/bin/bash
# Confirms a seeded change in a scratch worktree at /repo's HEAD:
#   tools/confirm_seeded.sh <dir with patch.diff and *_test.go demo files> <target dir in tree> <go test args...>
# e.g. tools/confirm_seeded.sh /tmp/wt/C02/_out/A . -run TestC02DemoA .
set -u
export GOFLAGS=-mod=mod GOPROXY=off GOSUMDB=off GOTOOLCHAIN=local
src=$(realpath "$1"); target=$2; shift 2
wt=$(mktemp -d /tmp/wtconfirm.XXXXXX); L=$wt.log; trap 'rm -f $L' EXIT
git -C /repo worktree remove --force $wt >/dev/null 2>&1
git -C /repo worktree add -q --detach $wt HEAD || exit 3
cd $wt
putdemo() { for f in "$src"/*_test.go; do cp "$f" "$target/zz_$(basename $f)"; done; }
rmdemo() { rm -f "$target"/zz_*_test.go; }
putdemo
if timeout 600 go test -vet=off -count=1 "$@" >$L 2>&1; then echo "demo without change: PASS"; else echo "demo without change: FAIL (bad demo)"; tail -5 $L; fi
rmdemo
if ! git apply "$src/patch.diff"; then echo "patch does not apply to HEAD"; fi
if go test -vet=off -count=1 ./... >$L 2>&1; then echo "suite with change: PASS ($(grep -c '^ok' $L) packages ok)"; else echo "suite with change: FAIL"; grep FAIL $L | head -3; fi
putdemo
if timeout 600 go test -vet=off -count=1 "$@" >$L 2>&1; then echo "demo with change: PASS (change not demonstrated)"; else echo "demo with change: FAIL (as required)"; grep -m2 -i 'fail\|error\|---' $L | cut -c1-200; fi
cd /; git -C /repo worktree remove --force $wt
