#!/bin/bash
# runs every check of a tier and prints one summary line per property: tools/runall.sh quick [seed]
tier=${1:-quick}; export VERIF_SEED=${2:-1}
cd /verif
for p in C01 C02 C03 C04 C05 C06 C07 C08 C09 C10 C11 C12 C13 C14 C15 C16 C17 C18 C19 C20; do
  s=$(date +%s)
  out=$(./check $p $tier 2>&1); rc=$?
  e=$(date +%s)
  echo "$p rc=$rc $((e-s))s | $(echo "$out" | grep -c '^VIOLATION') viol | $(echo "$out" | grep "^$p $tier" | cut -c1-220)"
  echo "$out" | grep '^VIOLATION\|^INCONCLUSIVE\|^KNOWN' | cut -c1-200
done
