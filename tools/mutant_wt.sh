#!/bin/bash
# Like tools/mutant.sh, but isolated: the patch is applied to a scratch worktree of /repo and the checks run from a scratch copy
# of the harness whose go.mod points at that worktree, with a scratch verif directory for evidence/replays. Neither /repo's
# working tree nor /verif's evidence is touched, so it may run while a sweep is in progress. Everything is removed at the end.
#   tools/mutant_wt.sh <patch.diff> <Cxx> [Cyy ...]        (TIER=thorough for the thorough tier, VERIF_SEED as usual)
set -u
patch=$(realpath "$1"); shift
export GOFLAGS=-mod=mod GOPROXY=off GOSUMDB=off GOTOOLCHAIN=local
S=$(mktemp -d /tmp/mwt.XXXXXX)
trap 'git -C /repo worktree remove --force "$S/repo" 2>/dev/null; rm -rf "$S"' EXIT
git -C /repo worktree add -q --detach "$S/repo" HEAD || exit 3
cd "$S/repo"
if ! git apply "$patch"; then echo "PATCH-DOES-NOT-APPLY"; exit 3; fi
if ! go build ./... 2>"$S/build.err"; then echo "MUTANT-DOES-NOT-COMPILE"; head -5 "$S/build.err"; exit 3; fi
if go test -vet=off -count=1 ./... >"$S/suite.log" 2>&1; then echo "suite: pass"; else echo "suite: FAIL (not a realistic mutant)"; grep -m5 'FAIL' "$S/suite.log"; fi
mkdir -p "$S/verif"
rsync -a --exclude bin /verif/harness "$S/verif/"
cp /verif/KNOWN_FINDINGS.txt /verif/properties.jsonl "$S/verif/"
cd "$S/verif/harness"
sed -i "s#=> /repo#=> $S/repo#" go.mod
cp "$S/repo/go.sum" go.sum
mkdir -p bin
go build -tags verif -o bin/vharness ./cmd/vharness || { echo "HARNESS-BUILD-FAILED"; exit 3; }
for p in "$@"; do
  extra=()
  if [ "$p" = "C15" ]; then go build -tags verif -race -o bin/vharness-race ./cmd/vharness && extra=(-worker-exe "$S/verif/harness/bin/vharness-race"); fi
  if [ "$p" = "C07" ]; then go1.26.8 build -tags verif -o bin/vharness-go126 ./cmd/vharness 2>/dev/null && extra=(-worker-exe2 "$S/verif/harness/bin/vharness-go126"); fi
  s=$(date +%s)
  out=$(bin/vharness run -prop $p -tier ${TIER:-quick} -verif "$S/verif" "${extra[@]}" 2>&1); rc=$?
  e=$(date +%s)
  case $rc in 0) v=MISSED;; 1) v=DETECTED;; *) v=INCONCLUSIVE;; esac
  [ -n "${SHOW:-}" ] && echo "$out" | grep '^KNOWN\|^VIOLATION\|^NOTE\|^INCONCLUSIVE\|^  ' | cut -c1-300 | head -${SHOW}
  echo "$p: $v rc=$rc $((e-s))s | $(echo "$out" | grep -m1 'signature:' | cut -c1-160) | $(echo "$out" | grep "^$p " | sed 's/.*cases=/cases=/' | cut -c1-120)"
done
