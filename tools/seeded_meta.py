#!/usr/bin/env python3
"""Writes seeded/<id>/<variant>/meta.json from the table below (what each change breaks, what it needs, what was run, which check caught it)."""
import json, os
T = {
 ("C02","A"): ("internal/graph/edge.go: Reverse sets IsReversed=true instead of toggling", "an edge reversed twice in phase 1 (two-node-cycle pre-pass + cycle breaker picking the same pair) comes back with swapped direction; needs an antiparallel pair inside a longer cycle", "C02", "C02/edge-multiplicity", "607/20000 quick cases"),
 ("C02","B"): ("autolayout_options_funcs.go: WithNodeSize treats an explicit 0x0 entry as missing", "needs WithNodeFixedSize(non-zero) together with a size map listing a node as 0x0", "C02", "C02/size", "136/20000"),
 ("C03","A"): ("internal/phase4/alg_process.go: assignYCoords adds the current layer's height instead of the previous one's", "needs heterogeneous heights with a taller band directly above a shorter one", "C03", "C03/band-spacing", "11605/30000"),
 ("C03","B"): ("internal/phase2/network_simplex.go: vbalance applies node moves after the scan, ranges computed from stale layers", "needs NS layering, an edge with slack whose two end nodes both have indeg=outdeg and move towards each other in one pass (6 in 30000 random sparse DAGs)", "C03", "C03/flat-edge/layerer=ns, C03/arrow-flag", "MISSED by the first version of the workload (0/30000); caught after family F12 (chains of different lengths with extra sources/sinks) was added: 19/30000"),
 ("C04","A"): ("internal/phase4/sink_coloring.go: block width stored under the wrong key for inner block members", "needs the default positioner, an aligned block of >= 3 real nodes whose widest member is in the middle, and a right neighbour", "C04", "C04/overlap/positioning=sink", "1042/25000"),
 ("C04","B"): ("autolayout.go: component shift skipped when the component has no horizontal extent", "needs >= 2 components where a non-last one has only zero-width single-node layers", "C04", "C04/spacing/...", "151/25000"),
 ("C05","A"): ("internal/phase5/ortho.go: start y of every segment uses the layer height", "needs ortho routing, a layer with different node heights and an edge leaving a shorter node, not vertically aligned", "C05", "C05/start-anchor/routing=ortho", "3271/20000"),
 ("C05","B"): ("internal/phase5/straight.go + autolayout.go: shared points slice for parallel edges, clone removed", "two cooperating sites; needs straight routing, >= 2 edges between one node pair, in a shifted (non-first) component", "C05", "C05/start-anchor/routing=straight", "158/20000"),
 ("C06","A"): ("internal/phase5/polyline.go: bend height uses the source layer's height", "needs polyline routing, a long edge and a source layer more than twice as tall as an intermediate layer", "C06", "C06/bend-inside-node, C06/polyline-upward", "293/15000"),
 ("C06","B"): ("internal/phase5/ortho.go: isVerticallyAligned uses |dx| < 1", "needs ortho routing and two connected nodes whose centres differ by less than 1 but not 0 (heterogeneous widths under packright/valign/B&K)", "C06", "C06/ortho-slanted", "345/15000"),
 ("C07","A"): ("internal/phase3/break_edges.go: virtual node counter moved to a package-level variable", "needs WithOutputVirtualNodes(true), a long edge, and >= 2 calls in one process", "C07", "C07/run-to-run/node-order", "1346/6000"),
 ("C07","B"): ("internal/phase1/dfs.go: reversable edges kept in a set and reversed in map order", "needs the depth-first breaker and >= 2 back edges sharing an end point, plus a downstream tie (1.6 % of random graphs within 30 repeats)", "C07", "C07/run-to-run/edge-data", "106/6000"),
 ("C08","A"): ("internal/phase4/network_simplex.go: auxiliary node map keyed by ID again", "needs the NS positioner, a long edge (virtual nodes V1..Vk) and a user node named V<j>", "C08", "C08/panic-after-rename/V-alphabet/ns", "1148/4000"),
 ("C08","B"): ("internal/phase1/greedy.go: max-outflow tie broken by smallest ID", "needs the greedy breaker, a cycle of length >= 3 with tied candidates and a renaming that changes their lexicographic order", "C08", "C08/layout-depends-on-names/...", "126/4000"),
 ("C09","A"): ("autolayout.go: shift taken from the layer tail with the largest X instead of the largest X+W", "needs >= 2 components, mixed widths or a zero-width virtual tail node, and a positioner that does not right-align", "C09", "C09/components-too-close", "1243/5000"),
 ("C09","B"): ("internal/graph/connected/connected.go: component edges collected from the nodes' out-lists (grouped by source)", "needs >= 2 components and a component whose edges are not listed grouped by source", "C09", "C09/component-differs/edge-order", "4597/5000"),
}
for (pid, var), (change, needs, caught_by, sig, rate) in T.items():
    d = "/verif/seeded/%s/%s" % (pid, var)
    if not os.path.isdir(d):
        continue
    meta = {
        "property": pid,
        "variant": var,
        "origin": "written by an independent sub-agent that was given only the text of the property and a scratch git worktree of /repo (nothing from /verif)",
        "change": change,
        "needs_to_manifest": needs,
        "files": sorted(os.listdir(d)),
        "confirmed": {
            "how": "tools/confirm_seeded.sh in a fresh scratch worktree at /repo HEAD: demo without change PASS, 43-test suite with change PASS, demo with change FAIL",
            "check_run": "tools/mutant.sh seeded/%s/%s/patch.diff %s  (applies the patch to /repo, runs the suite and ./check %s quick, restores /repo)" % (pid, var, caught_by, caught_by),
        },
        "detected_by": caught_by,
        "signature": sig,
        "rate": rate,
    }
    json.dump(meta, open(d + "/meta.json", "w"), indent=1)
print("meta written for", sum(1 for k in T if os.path.isdir("/verif/seeded/%s/%s" % k)))
