#!/bin/bash
# imports changes of a finished sub-agent: confirm in a scratch worktree, copy to seeded/, run the property's quick check
# tools/seed_in.sh <id> "<variants>" [target dir for the demo, default .] [extra properties to run]
id=$1; variants=${2:-A B}; target=${3:-.}; shift; shift; shift
for v in $variants; do
  d=/tmp/wt/$id/_out/$v
  [ -d $d ] || { echo "== $id/$v: no output"; continue; }
  tn=$(grep -ho 'func Test[A-Za-z0-9_]*' $d/*_test.go | sed 's/func //' | tr '\n' '|' | sed 's/|$//')
  echo "== $id/$v tests=$tn"
  /verif/tools/confirm_seeded.sh $d $target -run "^($tn)\$" ./$target 2>&1 | grep -v '^$'
  mkdir -p /verif/seeded/$id/$v && cp -r $d/* /verif/seeded/$id/$v/
  echo "   $(/verif/tools/mutant.sh /verif/seeded/$id/$v/patch.diff $id "$@" 2>&1 | tr '\n' ' ' | cut -c1-600)"
done
