#!/bin/bash
# imports the two changes of a finished sub-agent: confirm in a scratch worktree, copy to seeded/, run the property's quick check
# tools/seed_in.sh C15 [target dir for the demo, default .] [extra properties to run]
id=$1; target=${2:-.}; shift; shift
for v in A B; do
  d=/tmp/wt/$id/_out/$v
  [ -d $d ] || { echo "== $id/$v: no output"; continue; }
  demo=$(cd $d && ls *_test.go 2>/dev/null | head -1)
  tn=$(grep -o 'func Test[A-Za-z0-9_]*' $d/$demo | head -1 | sed 's/func //')
  echo "== $id/$v demo=$demo test=$tn"
  /verif/tools/confirm_seeded.sh $d $demo $target -run "^$tn\$" ./$target 2>&1 | grep -v '^$'
  mkdir -p /verif/seeded/$id/$v && cp -r $d/* /verif/seeded/$id/$v/
  echo "   $(/verif/tools/mutant.sh /verif/seeded/$id/$v/patch.diff $id "$@" 2>&1 | tr '\n' ' ' | cut -c1-500)"
done
