#!/bin/bash
# Applies a patch to /repo, runs the baseline suite and the quick checks of the given properties, and always restores /repo.
#   tools/mutant.sh <patch.diff> <Cxx> [Cyy ...]
# prints for every property: DETECTED (exit 1 + VIOLATION), MISSED (exit 0) or INCONCLUSIVE (exit 2)
set -u
patch=$(realpath "$1"); shift
export GOFLAGS=-mod=mod GOPROXY=off GOSUMDB=off GOTOOLCHAIN=local
cd /repo
if [ -n "$(git status --porcelain)" ]; then echo "REFUSING: /repo has uncommitted changes"; exit 3; fi
trap 'git -C /repo checkout -- . ; git -C /repo clean -fdq' EXIT
if ! git apply "$patch"; then echo "PATCH-DOES-NOT-APPLY"; exit 3; fi
if ! go build ./... 2>/tmp/mutant.build.err; then echo "MUTANT-DOES-NOT-COMPILE"; head -5 /tmp/mutant.build.err; exit 3; fi
if go test -vet=off -count=1 ./... >/tmp/mutant.suite.log 2>&1; then echo "suite: pass"; else echo "suite: FAIL (not a realistic mutant)"; grep -m5 'FAIL' /tmp/mutant.suite.log; fi
cd /verif
for p in "$@"; do
  s=$(date +%s)
  out=$(./check $p ${TIER:-quick} 2>&1); rc=$?
  e=$(date +%s)
  case $rc in 0) v=MISSED;; 1) v=DETECTED;; *) v=INCONCLUSIVE;; esac
  echo "$p: $v rc=$rc $((e-s))s | $(echo "$out" | grep -m1 'signature:' | cut -c1-160) | $(echo "$out" | grep "^$p " | sed 's/.*cases=/cases=/' | cut -c1-120)"
done
