#!/usr/bin/env python3
"""Rebuilds the seeded-change table of DESIGN.md section 6 from seeded/*/*/meta.json."""
import json,glob
rows=[]
for f in sorted(glob.glob('/verif/seeded/*/*/meta.json')):
    m=json.load(open(f))
    rows.append("| %s/%s | %s | %s | %s | %s |"%(m['property'],m['variant'],m['change'],m['needs_to_manifest'],m['detected_by'],m['rate']))
s=open('/verif/DESIGN.md').read()
a=s.index('| change | what was changed |'); b=s.index('<!-- MUTANT-TABLE-END -->')
head='| change | what was changed | what it needs to manifest | caught by | rate / history |\n|---|---|---|---|---|\n'
s=s[:a]+head+"\n".join(rows)+"\n"+s[b:]
open('/verif/DESIGN.md','w').write(s)
print(len(rows),'rows')
