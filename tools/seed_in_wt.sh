#!/bin/bash
# Like tools/seed_in.sh but never touches /repo's working tree (safe while a sweep runs): confirmation in a scratch worktree,
# detection through tools/mutant_wt.sh (HARNESS=<dir> to use another harness copy).
# tools/seed_in_wt.sh <id> "<variants>" [target dir for the demo, default .] [extra properties to run]
id=$1; variants=${2:-A B}; target=${3:-.}; shift; shift; shift
for v in $variants; do
  d=/tmp/wt/$id/_out/$v
  [ -d $d ] || { echo "== $id/$v: no output"; continue; }
  tn=$(grep -ho 'func Test[A-Za-z0-9_]*' $d/*_test.go | sed 's/func //' | tr '\n' '|' | sed 's/|$//')
  echo "== $id/$v tests=$tn"
  /verif/tools/confirm_seeded.sh $d $target -run "^($tn)\$" ./$target 2>&1 | grep -v '^$'
  mkdir -p /verif/seeded/$id/$v && cp -r $d/* /verif/seeded/$id/$v/
  echo "   $(${MW:-/verif/tools/mutant_wt.sh} /verif/seeded/$id/$v/patch.diff $id "$@" 2>&1 | tr '\n' ' ' | cut -c1-700)"
done
