#!/usr/bin/env python3
# summarize replay files of a property: tools/viols.py C03 [detail-chars]
import json,glob,sys
prop=sys.argv[1]; n=int(sys.argv[2]) if len(sys.argv)>2 else 500
for f in sorted(glob.glob('/verif/replays/%s/*.json'%prop)):
    d=json.load(open(f)); c=d['case']
    ids=set(x for e in c.get('edges') or [] for x in e)
    o=c['opts']
    print('==',f.split('/')[-1], d['signature'], '| idx',c['index'],c['family'],'n=%d m=%d'%(len(ids),len(c.get('edges') or [])), 'cell=%d/%d/%d/%d'%(o['breaker'],o['layerer'],o['positioner'],o['router']))
    if 0<len(c.get('edges') or [])<=14: print('   edges',json.dumps(c['edges']))
    print('   opts',json.dumps({k:v for k,v in o.items() if k not in('breaker','layerer','positioner','router','greedy_seed','explicit')}))
    print('   ',d['detail'][:n].replace('\n','\n    '))
