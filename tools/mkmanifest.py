#!/usr/bin/env python3
"""Regenerates /verif/MANIFEST.json from the per-property table below (run after changing what is claimed)."""
import json, subprocess

props = [json.loads(l) for l in open('/verif/properties.jsonl')]

GO = "GOFLAGS=-mod=mod GOPROXY=off GOSUMDB=off GOTOOLCHAIN=local"

# id -> (technique, what the check gives, trusted base / assumptions)
T = {
 "C01": ("runtime monitoring: journaled child-worker executions of the real Layout over the full option grid; watchdog (time, heap, stack) + recovered-panic oracle",
         "every generated call returned: no panic, no process death, no confirmed hang, no runaway heap, on the executions listed in the evidence (all 270 algorithm cells, families F1-F11)",
         "time never decides alone (timeouts at 20 s under load are re-run with 100 s); network simplex positioner limited to <= 14 nodes; greedy-random replayed through seed hook H1"),
 "C02": ("runtime monitoring: output-vs-input multiset oracle over executions", "node set, edge multiset with direction, sizes and unrouted self loops equal the input on every explored call (virtual output off and on)", "expected sizes derived from the options alone (per-node entry, else fixed, else zero)"),
 "C03": ("runtime monitoring: band/edge-direction oracle over executions", "band spacing, no flat edge, downward edges on acyclic inputs, upward iff ArrowHeadStart on every explored call", "bands are recognised by equal Y per component (union-find on the input); LayerSpacing > 0"),
 "C04": ("runtime monitoring: pairwise rectangle and same-band gap oracle over executions", "no overlapping node rectangles, same-band gaps >= NodeSpacing, finite non-negative coordinates for the four size-aware positioners", "exact comparison for dyadic inputs, 1e-9 relative otherwise; spacing clause judged for LayerSpacing > 0 only (bands recognised by Y)"),
 "C05": ("runtime monitoring: anchor/arrowhead oracle over executions", "first/last route point = bottom-centre/top-centre of the upper/lower endpoint computed from the returned rectangles, arrowhead end at ToID", "anchors compared exactly (dyadic) or with 1e-9 relative tolerance"),
 "C06": ("runtime monitoring: per-style route shape oracle over executions", "straight=2 points; polyline=span+1 points, monotone y, bends outside nodes, one helper node per bend; ortho=axis-parallel segments; splines=4k points with joined pieces", "spans derived from bands of the returned drawing; with LayerSpacing 0 and zero-height bands (abutting bands) from a second run that differs in the layer spacing only"),
 "C07": ("runtime monitoring: repeated execution in one process and across fresh processes, byte-wise comparison; deep-copy comparison of caller data", "identical canonical output over 6 (16) repetitions and across two fresh processes (the second built with go1.26.8); the edge list and the very size map handed to the library equal their clones after every call; a call with other algorithms on the same source between two repetitions changes nothing; a result kept by the caller is unchanged after later calls (retained-result monitor, all sequential checks)", "map-order nondeterminism is probabilistic: silence means not observed in r repetitions x 2 processes"),
 "C08": ("runtime monitoring: metamorphic relation Layout(rename(G)) = rename(Layout(G)) over executions", "seven adversarial injective renamings per case (helper alphabets V<n>/NE<n>, permutation, hostile strings, mixed, colliding concatenations, look-alikes that coincide after trimming/number parsing/case folding) leave the layout unchanged byte for byte", "mismatches are charged only when both sides are self-consistent (otherwise C07)"),
 "C09": ("runtime monitoring: metamorphic relation union vs parts over executions", "every component of a union equals its stand-alone layout up to one horizontal translation; component extents disjoint and NodeSpacing apart (size-aware positioners)", "exact for dyadic inputs; spline control points compared with 1e-9 relative tolerance"),
 "C10": ("runtime monitoring: per-instance optimality certificate (LP duality, Dinic max-flow on tight edges) over executions, cross-checked against brute force for <= 7 nodes; iteration-cap hook H2", "total edge span is minimal and real nodes occupy contiguous layers on every judged run; capped runs are counted and excluded", "layer numbers derived from Y with uniform heights and helper nodes in the output; unit edge weights"),
 "C11": ("runtime monitoring: independent longest-path DP oracle over executions", "layer count = longest drawn path, every node sits longest-path-to-sink layers above the bottom layer of its component", "layer numbers derived from Y with uniform heights and helper nodes in the output"),
 "C12": ("runtime monitoring: recording monitor (public Monitor interface) + naive O(S^2) crossing count on the returned polylines", "reported crossing number equals the crossings of the drawing (x-order definition) incl. graphs with > 64 layers and wide layers", "simple graphs, NodeSpacing > 0, LayerSpacing > 0"),
 "C13": ("runtime monitoring: crossing-count oracle over executions; exhaustive enumeration of small rooted trees", "all parent-vector trees with <= 7 (8) nodes in both orientations plus random trees up to 200 nodes are drawn without crossings", "exhaustive in tree shape only; edge orders and relabellings are sampled"),
 "C14": ("runtime monitoring: per flagged edge acyclicity oracle over executions", "every edge reversed by the depth-first breaker is necessary; acyclic multigraphs come back without any reversed edge (all three breakers); also when the same edge list was laid out with the other breaker just before", "reversal observed through ArrowHeadStart"),
 "C15": ("runtime monitoring: Go race detector over a concurrent workload + sequential-reference equality + quiescent-state invariant on package globals (hook H4)", "zero race reports, every concurrent result equals its sequential reference (batches of similar inputs, wide layers, small graphs next to large ones, CPU starvation), globals idle and defaults unchanged after each batch", "the static enumeration of package-level writes named in the quantifier is NOT done (out of family); races are only seen on executed paths and occurred interleavings"),
 "C16": ("runtime monitoring: arithmetic identity oracle over executions", "band extent, neighbour gaps, leftmost x = 0, common midpoint (VAlign) / common right end (PackRight) hold exactly on every explored call", "connected inputs; exact for dyadic inputs, 1e-9 relative otherwise"),
 "C17": ("runtime monitoring: metamorphic relation under scaling by 2^k over executions", "scaling sizes and spacings by 2^k scales the canonical output bit for bit, k in -3..6", "network simplex positioner and splines are outside the property"),
 "C18": ("runtime monitoring: offline checker over recorded histories on a logical clock + quiescent-state invariant (hook H4)", "every monitor event lies inside a call that was given that monitor, also after panicking calls; layouts with and without monitor are identical; globals idle after every call; the library's own channel monitor delivers nothing after Layout returned", "events are attributed by logical interval, not by count"),
 "C19": ("runtime monitoring: reference-model oracle (visibility-graph Dijkstra + exact band containment) over executions of the real geom.Shortest", "returned path runs end->start, stays inside and has the length of the true shortest path on every generated well-formed corridor (sizes 2^-30 .. 2^30 times the usual ones included) and on the corridors phase 5 builds", "relative tolerance 1e-9; well-formedness as stated in the property"),
 "C20": ("runtime monitoring: independent De Casteljau containment oracle over executions of the real FitSpline; root finder judged against roots constructed in 256-bit arithmetic", "pieces start/end at the path ends, join exactly, stay within 0.05 of the corridor (sampled uniformly, at coordinate extrema and around every corner the piece approaches; corridors include long runs grazing a corner); solve3 returns every robustly real root and nothing that is not a root", "one known finding (curve leaving through a polygon vertex / piece end point) is listed in KNOWN_FINDINGS.txt; double roots are not demanded"),
}

claimed = sorted(T)
checks = []
for p in props:
    pid = p['id']
    if pid not in T:
        continue
    tech, text, note = T[pid]
    checks.append({
        "property_id": pid,
        "quick_cmd": "./check %s quick" % pid,
        "thorough_cmd": "./check %s thorough" % pid,
        "evidence_file": "/verif/evidence/%s.json" % pid,
        "replay_cmd_template": "./check replay {path}",
        "engine": "vharness",
        "level_claimed": {"category": "exploration",
                          "text": text + ". Exploration only: held on the executions counted in the evidence file, nothing is proved.",
                          "design_ref": "DESIGN.md section 3, " + pid},
        "level_note": note + "; trusted base: the Go toolchain, the harness oracles and reference models in /verif/harness (each cross-checked, see DESIGN.md 1.4)",
        "technique": tech,
    })

hooks = subprocess.run(['git', '-C', '/repo', 'log', '--format=%h %s'], capture_output=True, text=True).stdout.splitlines()
hook_commits = [l.split()[0] for l in hooks if l.split(' ', 1)[1].startswith('verif hooks')]

m = {
    "version": 1,
    "setup_cmd": "cd /verif/harness && cp /repo/go.sum go.sum && %s go build -tags verif -o bin/vharness ./cmd/vharness && %s go build -tags verif -race -o bin/vharness-race ./cmd/vharness && %s go test -count=1 ./model/" % (GO, GO, GO),
    "hooks": {
        "guard": "verif",
        "enable": "go build -tags verif (internal/verifhook/hooks_on.go, verif_export.go files; without the tag the hook calls are empty inlined stubs)",
        "baseline_off_cmd": "cd /repo && %s go test -vet=off -count=1 ./..." % GO,
        "source_commits": hook_commits,
        "add_only": True,
    },
    "engines": [{"name": "vharness", "path": "/verif/harness", "serves_properties": claimed,
                 "kind_free_text": "Go driver/worker harness: deterministic generated workloads, executions of the real library in journaled child processes under a watchdog, one oracle per property, independent reference models"}],
    "checks": checks,
    "notes": "All checks: ./check <id> <quick|thorough>; VERIF_SEED selects the cases, never their number. exit 0 = held on everything explored, 1 = VIOLATION line(s), 2 = INCONCLUSIVE (build failed or the monitor observed too little). Known findings: /verif/KNOWN_FINDINGS.txt.",
    "not_applicable": [{"property_id": p['id'], "reason": "check not built yet"} for p in props if p['id'] not in T],
}
json.dump(m, open('/verif/MANIFEST.json', 'w'), indent=1)
print("claimed", len(checks), "hook commits", hook_commits)
